import ExecModel.Basic
/-!
  `Key` — the cache key of `executorlib/standalone/serialize.py`:
  `task_key = fn.__name__ + md5(re.sub(b"(?<=/ipykernel_)([0-9]+)(?=/)", b"", cloudpickle(call)))`.
  `blank` is the regular-expression substitution as a scanner over bytes; the hash and the pickle
  are parameters.  `greedy = true` is the pattern as found at f65d02b, `(?<=/ipykernel_)(.*)(?=/)`
  (defect D7): everything between the first `/ipykernel_` and the last `/` is removed.
-/
namespace ExecModel.Key

abbrev Bytes := List UInt8

/-- ASCII string to bytes (kernel-reducible, unlike `String.toUTF8`) -/
def ofStr (s : String) : Bytes := s.toList.map (fun c => UInt8.ofNat c.toNat)

/-- `b"/ipykernel_"` -/
def marker : Bytes := [47, 105, 112, 121, 107, 101, 114, 110, 101, 108, 95]
def slash : UInt8 := 47

def isDigit (b : UInt8) : Bool := 48 ≤ b && b ≤ 57

def stripPre : (p l : Bytes) → Option Bytes
  | [], l => some l
  | _ :: _, [] => none
  | a :: p, b :: l => if a = b then stripPre p l else none

theorem stripPre_eq_some {p l r : Bytes} (h : stripPre p l = some r) : l = p ++ r := by
  induction p generalizing l with
  | nil => simp [stripPre] at h; simp [h]
  | cons a p ih =>
    cases l with
    | nil => simp [stripPre] at h
    | cons b l =>
      simp only [stripPre] at h
      split at h
      · rename_i hab; subst hab; simp [ih h]
      · cases h

/-- longest prefix of digits and the rest -/
def spanDigits : Bytes → Bytes × Bytes
  | [] => ([], [])
  | b :: l => if isDigit b then (b :: (spanDigits l).1, (spanDigits l).2) else ([], b :: l)

theorem spanDigits_append (l : Bytes) : (spanDigits l).1 ++ (spanDigits l).2 = l := by
  induction l with
  | nil => rfl
  | cons b l ih =>
    simp only [spanDigits]
    split <;> simp [ih]

theorem spanDigits_digits (l : Bytes) : ∀ d ∈ (spanDigits l).1, isDigit d = true := by
  induction l with
  | nil => simp [spanDigits]
  | cons b l ih =>
    simp only [spanDigits]
    split
    · rename_i hb; intro d hd; simp at hd; rcases hd with rfl | hd
      · exact hb
      · exact ih d hd
    · simp

/-- `re.sub(b"(?<=/ipykernel_)([0-9]+)(?=/)", b"", ·)`, by recursion on a fuel ≥ the length. -/
def blankF : Nat → Bytes → Bytes
  | 0, l => l
  | _, [] => []
  | n + 1, c :: rest =>
    match stripPre marker (c :: rest) with
    | some after =>
      let ds := (spanDigits after).1
      let tail := (spanDigits after).2
      if ds ≠ [] ∧ tail.head? = some slash then marker ++ blankF n tail else c :: blankF n rest
    | none => c :: blankF n rest

def blank (l : Bytes) : Bytes := blankF l.length l

/-- The pattern as found at f65d02b, `(?<=/ipykernel_)(.*)(?=/)` with `.` not matching a newline is
    approximated on newline-free input: everything between the first marker and the last `/` goes. -/
def afterLastSlash : Bytes → Option Bytes
  | [] => none
  | b :: l => match afterLastSlash l with
    | some r => some r
    | none => if b = slash then some (b :: l) else none

def blankGreedyF : Nat → Bytes → Bytes
  | 0, l => l
  | _, [] => []
  | n + 1, c :: rest =>
    match stripPre marker (c :: rest) with
    | some after => (match afterLastSlash after with
      | some r => marker ++ r
      | none => c :: blankGreedyF n rest)
    | none => c :: blankGreedyF n rest

def blankGreedy (l : Bytes) : Bytes := blankGreedyF l.length l

/-- The cache key: function name and hash of the blanked pickle. -/
structure CacheKey (Hash : Type) where
  name : String
  hash : Hash
  deriving DecidableEq

def key {Call Hash : Type} (name : Call → String) (ser : Call → Bytes) (H : Bytes → Hash) (c : Call) : CacheKey Hash :=
  { name := name c, hash := H (blank (ser c)) }

end ExecModel.Key
