import ExecModel.Basic
/-!
  `Plot` — `plot_dependency_graph=True`: `ExecutorWithDependencies.submit` (records the call under
  a key, returns a finished future, executes nothing) and `standalone/plot.py`
  (`generate_nodes_and_edges`).

  `perSubmission = true` is the code after the fix (the table key is unique per submission);
  `perSubmission = false` the code as found (defect D16): the key is a hash of function and
  arguments, so identical calls share one table entry — the later one replaces the earlier — and
  the earlier future is no longer known (`KeyError` when it is passed to a later call).
-/
namespace ExecModel.Plot

/-- One argument of a submitted call, as the graph builder distinguishes them. -/
inductive PArg where
  | fut (j : Nat)              -- the future of submission `j`
  | futs (js : List Nat)       -- a list all of whose elements are futures (possibly empty)
  | val (repr : String)        -- anything else (drawn as a value node labelled `str(arg)`)
  deriving Repr, DecidableEq

structure PCall where
  fn : String                          -- `fn.__name__`
  args : List PArg
  kwargs : List (String × PArg)
  deriving Repr, DecidableEq

structure Node where
  id : Nat
  name : String
  box : Bool          -- shape "box" (a call) or "circle" (a value)
  deriving Repr, DecidableEq

structure Edge where
  start : Nat
  stop : Nat
  label : String
  deriving Repr, DecidableEq

structure Graph where
  nodes : List Node := []
  edges : List Edge := []
  deriving Repr, DecidableEq

/-- `add_element(arg, link_to, label)`; `boxOf j` = node id of the producing submission. -/
def addElement (boxOf : Nat → Nat) (g : Graph) (target : Nat) (label : String) : PArg → Graph
  | .fut j => { g with edges := g.edges ++ [⟨boxOf j, target, label⟩] }
  | .futs js => { g with edges := g.edges ++ js.map (fun j => ⟨boxOf j, target, label⟩) }
  | .val r =>
    { nodes := g.nodes ++ [⟨g.nodes.length, r, false⟩],
      edges := g.edges ++ [⟨g.nodes.length, target, label⟩] }

def addCall (boxOf : Nat → Nat) (g : Graph) (target : Nat) (c : PCall) : Graph :=
  let g1 := c.args.foldl (fun g a => addElement boxOf g target "" a) g
  c.kwargs.foldl (fun g kv => addElement boxOf g target kv.1 kv.2) g1

/-- `generate_nodes_and_edges` for the table `tbl` = (box id of the entry, call) in table order. -/
def genGraph (boxOf : Nat → Nat) (tbl : List PCall) : Graph :=
  let boxes : Graph := { nodes := (List.range tbl.length).map (fun k => ⟨k, (tbl.getD k ⟨"", [], []⟩).fn, true⟩) }
  ((List.range tbl.length).zip tbl).foldl (fun g kc => addCall boxOf g kc.1 kc.2) boxes

/-- After the fix every submission has its own table entry: box `k` is submission `k`. -/
def graphOf (prog : List PCall) : Graph := genGraph id prog

end ExecModel.Plot
