import ExecModel.Basic
/-!
  Model of `executorlib/standalone/interactive/spawner.py`
  (`generate_mpiexec_command`, `generate_slurm_command`, the `generate_command` methods),
  `interactive/shared.py::_get_backend_path`, `communication.py::interface_bootup` (argv part),
  `standalone/interactive/backend.py::parse_arguments`, and `cache/shared.py::_get_execute_command`.
-/
namespace ExecModel.Cmd

/-! Literal tokens, named so that proofs can treat them as atoms. -/
def tSrun : Tok := "srun".toList
def tMpiexec : Tok := "mpiexec".toList
def tN : Tok := "-n".toList
def tD : Tok := "-D".toList
def tOversub : Tok := "--oversubscribe".toList
def tHost : Tok := "--host".toList
def tZmqport : Tok := "--zmqport".toList
def tLocalhost : Tok := "localhost".toList
def pCpusEq : Tok := "--cpus-per-task=".toList
def pCpusNoEq : Tok := "--cpus-per-task".toList
def pGpusEq : Tok := "--gpus-per-task=".toList

structure SrunReq where
  cores   : Nat
  cwd     : Option Tok
  threads : Nat
  gpus    : Nat
  oversub : Bool
  extra   : List Tok
  deriving Repr, DecidableEq

/-- `if openmpi_oversubscribe: command_prepend_lst += ["--oversubscribe"]` -/
def overSeg : Bool → List Tok
  | true => [tOversub]
  | false => []

/-- `generate_mpiexec_command(cores, openmpi_oversubscribe)` -/
def mpiexecPrefix (cores : Nat) (oversub : Bool) : List Tok :=
  if cores = 1 then [] else [tMpiexec, tN, natStr cores] ++ overSeg oversub

/-- `if cwd is not None: command_prepend_lst += ["-D", cwd]` -/
def cwdSeg : Option Tok → List Tok
  | some d => [tD, d]
  | none => []

/-- `if threads_per_core > 1: ...`.  `eqSign = true` is the repaired code (`--cpus-per-task=N`),
    `false` the code as found at f65d02b (`--cpus-per-taskN`, defect D6). -/
def cpusSeg (eqSign : Bool) (threads : Nat) : List Tok :=
  if threads > 1 then [(if eqSign then pCpusEq else pCpusNoEq) ++ natStr threads] else []

def gpusSeg (gpus : Nat) : List Tok :=
  if gpus > 0 then [pGpusEq ++ natStr gpus] else []

/-- `generate_slurm_command(...)`. -/
def srunPrefix (eqSign : Bool) (r : SrunReq) : List Tok :=
  [tSrun, tN, natStr r.cores] ++ cwdSeg r.cwd ++ cpusSeg eqSign r.threads ++ gpusSeg r.gpus
    ++ overSeg r.oversub ++ r.extra

def hostSeg : Option Tok → List Tok
  | some h => [tHost, h]
  | none => []

/-- Worker command as assembled by `_get_backend_path` + `interface_bootup`:
    `[python, script] ++ (["--host", h] unless hostname_localhost) ++ ["--zmqport", port]`. -/
def workerCmd (python script : Tok) (host : Option Tok) (port : Tok) : List Tok :=
  [python, script] ++ hostSeg host ++ [tZmqport, port]

/-- Python `lst[lst.index(flag) + 1]` if `flag in lst`: `none` = flag absent,
    `some none` = IndexError (flag is the last element). -/
def afterFlag (flag : Tok) : List Tok → Option (Option Tok)
  | [] => none
  | t :: rest => if t = flag then some rest.head? else afterFlag flag rest

structure ParsedArgs where
  host : Tok
  port : Option Tok    -- `zmqport` key absent when the flag is absent
  deriving Repr, DecidableEq

def parseArgsCore : Option (Option Tok) → Option (Option Tok) → Option ParsedArgs
  | some none, _ => none
  | _, some none => none
  | some (some p), some (some h) => some { host := h, port := some p }
  | some (some p), none => some { host := tLocalhost, port := some p }
  | none, some (some h) => some { host := h, port := none }
  | none, none => some { host := tLocalhost, port := none }

/-- `parse_arguments(argument_lst)`; `none` = the real function raises `IndexError`. -/
def parseArgs (argv : List Tok) : Option ParsedArgs :=
  parseArgsCore (afterFlag tZmqport argv) (afterFlag tHost argv)

/-- `_get_execute_command(file_name, cores)` of file mode (mpi4py assumed importable). -/
def fileCmd (python serialScript parallelScript file : Tok) (cores : Nat) : List Tok :=
  if cores > 1 then [tMpiexec, tN, natStr cores, python, parallelScript, file]
  else [python, serialScript, file]

end ExecModel.Cmd
