import ExecModel.Basic
import ExecModel.Cmd
import ExecModel.Launcher
import ExecModel.Props.C16
import ExecModel.Preset
import ExecModel.Props.C15
import ExecModel.Wire
import ExecModel.Props.C17
