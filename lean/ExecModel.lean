import ExecModel.Basic
import ExecModel.Cmd
import ExecModel.Launcher
import ExecModel.Props.C16
