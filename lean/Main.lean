import Lean.Data.Json
import ExecModel.Cmd
import ExecModel.Launcher
import ExecModel.Props.C16
import ExecModel.Props.C15
import ExecModel.Props.C17
import ExecModel.Props.C17Nth
import ExecModel.Props.C11Scan
import ExecModel.Lts.SysExplore
import ExecModel.Args
import ExecModel.Res
import ExecModel.Key
import ExecModel.Props.C20
import ExecModel.Lts.Cache
import ExecModel.Lts.FileExec
import ExecModel.Config
import ExecModel.Proofs.SysLiveDefs
import ExecModel.Lts.Pub
import ExecModel.Props.C05Conn
/-!
  `modeld` — line protocol driver: one JSON object per line in, one JSON value per line out.
  Every request carries `"op"`.  Anything not understood yields `{"error": "bad-op"}`; nothing is
  defaulted.
-/
open Lean ExecModel

def tok (s : String) : Tok := s.toList
def untok (t : Tok) : String := String.ofList t

def jTok (t : Tok) : Json := Json.str (untok t)
def jToks (l : List Tok) : Json := Json.arr (l.map jTok).toArray
def jOptTok : Option Tok → Json
  | some t => jTok t
  | none => Json.null

def getStr (j : Json) (k : String) : Except String String := j.getObjValAs? String k
def getNat (j : Json) (k : String) : Except String Nat := j.getObjValAs? Nat k
def getBool (j : Json) (k : String) : Except String Bool := j.getObjValAs? Bool k
def getOptStr (j : Json) (k : String) : Except String (Option String) :=
  match j.getObjVal? k with
  | .ok Json.null => pure none
  | .ok (Json.str s) => pure (some s)
  | .ok _ => throw s!"{k}: expected string or null"
  | .error _ => pure none
def getStrList (j : Json) (k : String) : Except String (List String) := do
  let a ← j.getObjValAs? (Array String) k
  pure a.toList

def bad (msg : String) : Json := Json.mkObj [("error", Json.str "bad-op"), ("detail", Json.str msg)]

namespace H

def srunReq (j : Json) : Except String Cmd.SrunReq := do
  pure { cores := ← getNat j "cores", cwd := (← getOptStr j "cwd").map tok,
         threads := ← getNat j "threads", gpus := ← getNat j "gpus",
         oversub := ← getBool j "oversub", extra := (← getStrList j "extra").map tok }

def jReq (r : Launcher.Req) : Json :=
  Json.mkObj [("ntasks", jOptTok r.ntasks), ("chdir", jOptTok r.chdir), ("cpus", jOptTok r.cpus),
    ("gpus", jOptTok r.gpus), ("oversub", Json.bool r.oversub), ("other", jToks r.other)]

def cmdOps (op : String) (j : Json) : Except String (Option Json) := do
  match op with
  | "srun_prefix" =>
    let r ← srunReq j
    let eq ← getBool j "eq"
    pure (some (jToks (Cmd.srunPrefix eq r)))
  | "mpiexec_prefix" =>
    pure (some (jToks (Cmd.mpiexecPrefix (← getNat j "cores") (← getBool j "oversub"))))
  | "worker_cmd" =>
    pure (some (jToks (Cmd.workerCmd (tok (← getStr j "python")) (tok (← getStr j "script"))
      ((← getOptStr j "host").map tok) (tok (← getStr j "port")))))
  | "file_cmd" =>
    pure (some (jToks (Cmd.fileCmd (tok (← getStr j "python")) (tok (← getStr j "serial"))
      (tok (← getStr j "parallel")) (tok (← getStr j "file")) (← getNat j "cores"))))
  | "parse_args" =>
    let argv := (← getStrList j "argv").map tok
    match Cmd.parseArgs argv with
    | none => pure (some (Json.str "IndexError"))
    | some p => pure (some (Json.mkObj [("host", jTok p.host), ("zmqport", jOptTok p.port)]))
  | "srun_parse" =>
    let argv := (← getStrList j "argv").map tok
    match Launcher.srunParse argv with
    | none => pure (some Json.null)
    | some (r, cmd) => pure (some (Json.mkObj [("req", jReq r), ("cmd", jToks cmd)]))
  | "mpi_parse" =>
    let argv := (← getStrList j "argv").map tok
    match Launcher.mpiParse argv with
    | none => pure (some Json.null)
    | some (r, cmd) => pure (some (Json.mkObj [("req", Json.mkObj [("procs", jTok r.procs),
        ("oversub", Json.bool r.oversub)]), ("cmd", jToks cmd)]))
  | "srun_spec_ok" =>
    -- SPEC oracle on an argv produced by the implementation: does srun understand it as `r`?
    let r ← srunReq j
    let argv := (← getStrList j "argv").map tok
    let cmd := (← getStrList j "cmd").map tok
    let dom := decide (∀ t ∈ r.extra, C16.Opaque t) && (match cmd with | c :: _ => decide (C16.IsCmd c) | [] => false)
    pure (some (Json.mkObj [("in_domain", Json.bool dom),
      ("ok", Json.bool (Launcher.srunParse argv == some (C16.reqOf r, cmd)))]))
  | "mpi_spec_ok" =>
    let cores ← getNat j "cores"
    let o ← getBool j "oversub"
    let argv := (← getStrList j "argv").map tok
    let cmd := (← getStrList j "cmd").map tok
    let dom := match cmd with | c :: _ => decide (C16.IsMpiCmd c) | [] => false
    let expect : Launcher.MpiReq := if cores = 1 then { procs := "1".toList, oversub := false }
            else { procs := natStr cores, oversub := o }
    pure (some (Json.mkObj [("in_domain", Json.bool dom),
      ("ok", Json.bool (Launcher.mpiParse argv == some (expect, cmd)))]))
  | "classify" =>
    let t := tok (← getStr j "tok")
    let k := match Launcher.classify t with
      | .needsArg _ => "needsArg" | .sets _ _ => "sets" | .flagOversub => "flag"
      | .other => "other" | .command => "command"
    let mk := match Launcher.mclassify t with
      | .nflag => "nflag" | .over => "over" | .bad => "bad" | .command => "command"
    pure (some (Json.mkObj [("srun", Json.str k), ("mpi", Json.str mk)]))
  | _ => pure none

def getPairs (j : Json) (k : String) : Except String (List (String × Json)) := do
  let a ← j.getObjValAs? (Array Json) k
  a.toList.mapM (fun e => do
    match e with
    | Json.arr #[Json.str n, v] => pure (n, v)
    | _ => throw s!"{k}: expected [name, value] pairs")

def jPairs (l : List (String × Json)) : Json :=
  Json.arr (l.map (fun (n, v) => Json.arr #[Json.str n, v])).toArray

def jBindRes : Except (Preset.BindErr String) (List (String × Json)) → Json
  | .ok b => Json.mkObj [("ok", jPairs b)]
  | .error (.unexpected k) => Json.mkObj [("err", "unexpected"), ("names", Json.arr #[Json.str k])]
  | .error (.multiple k) => Json.mkObj [("err", "multiple"), ("names", Json.arr #[Json.str k])]
  | .error .tooMany => Json.mkObj [("err", "toomany"), ("names", Json.arr #[])]
  | .error (.missing ks) => Json.mkObj [("err", "missing"), ("names", Json.arr (ks.map Json.str).toArray)]

def presetOps (op : String) (j : Json) : Except String (Option Json) := do
  match op with
  | "call_funct" | "spec_call" =>
    let sigJ ← j.getObjValAs? (Array Json) "sig"
    let sig : Preset.Sig String Json ← sigJ.toList.mapM (fun e => do
      let n ← getStr e "name"
      let d := match e.getObjVal? "dflt" with | .ok v => some v | .error _ => none
      pure (⟨n, d⟩ : Preset.Param String Json))
    let args := (← j.getObjValAs? (Array Json) "args").toList
    let kw ← getPairs j "kwargs"
    let mem : Option (List (String × Json)) ← (match j.getObjVal? "mem" with
      | .ok Json.null => pure none
      | .ok _ => do pure (some (← getPairs j "mem"))
      | .error _ => pure none)
    if op == "call_funct" then
      pure (some (jBindRes (Preset.callFunct (← getBool j "skip") sig mem args kw)))
    else
      match mem with
      | some m => pure (some (jBindRes (C15.specCall sig m args kw)))
      | none => pure (some (jBindRes (Preset.bind sig args kw)))
  | _ => pure none

/-- Calls understood by the driver's instance of `Wire.Run`. -/
inductive CallK
  | ok (v : Json)             -- returns v
  | raise (e : Json)          -- raises e
  | preset (key : String)     -- returns the preset value of `key`; fails when not preset
  | counter                   -- returns the number of calls executed before in this interpreter
  | rank (v : Json)           -- returns [rank, v]

def runK : Wire.Run (List (String × Json)) CallK Json Json
  | _, _, _, .ok v => .ok v
  | _, _, _, .raise e => .error e
  | _, _, m, .preset k => match m.bind (fun d => Dict.get? d k) with
      | some v => .ok v
      | none => .error (Json.str "TypeError")
  | _, n, _, .counter => .ok (Json.num n)
  | r, _, _, .rank v => .ok (Json.arr #[Json.num r, v])

def parseReq (j : Json) : Except String (Wire.Req (List (String × Json)) CallK) := do
  match ← getStr j "t" with
  | "init" => pure (.init (← getPairs j "mem"))
  | "shutdown" => pure .shutdown
  | "other" => pure .other
  | "ok" => pure (.call (.ok (← j.getObjVal? "v")))
  | "raise" => pure (.call (.raise (← j.getObjVal? "v")))
  | "preset" => pure (.call (.preset (← getStr j "key")))
  | "counter" => pure (.call .counter)
  | "rank" => pure (.call (.rank (← j.getObjVal? "v")))
  | t => throw s!"unknown request kind {t}"

def wireOps (op : String) (j : Json) : Except String (Option Json) := do
  match op with
  | "wire_serve" =>
    let reqs ← (← j.getObjValAs? (Array Json) "reqs").toList.mapM parseReq
    let out := Wire.serve runK {} reqs
    pure (some (Json.arr (out.map (fun r => match r with
      | .result v => Json.mkObj [("result", v)]
      | .error e => Json.mkObj [("error", e)]
      | .ack => Json.mkObj [("ack", true)])).toArray))
  | "wire_pair" =>
    -- the parent side (`C17.pair`): request index ↦ the reply a parent pairing each reply-bearing send with one receive is handed
    let reqs ← (← j.getObjValAs? (Array Json) "reqs").toList.mapM parseReq
    let cut := C17.takeThrough C17.isShutdown reqs
    let prs := C17.pair cut (Wire.serve runK {} cut)
    let rec go (i : Nat) : List (Wire.Req (List (String × Json)) CallK × Option (Wire.Reply Json Json)) → List Json
      | [] => []
      | (_, none) :: rest => go (i + 1) rest
      | (_, some r) :: rest => Json.arr #[toJson i, (match r with
          | .result v => Json.mkObj [("result", v)]
          | .error e => Json.mkObj [("error", e)]
          | .ack => Json.mkObj [("ack", true)])] :: go (i + 1) rest
    pure (some (Json.arr (go 0 prs).toArray))
  | "scan_pass" =>
    -- one pass of the resolver over its wait list (`C11Scan.scanPass`): positions forwarded (queue order) and positions kept
    let rd := (← j.getObjValAs? (Array Nat) "ready").toList
    let idx := List.range rd.length
    let out := C11Scan.scanPass (fun i => rd.getD i 0 != 0) idx
    pure (some (Json.mkObj [("fwd", toJson out.1.toArray), ("rest", toJson out.2.toArray)]))
  | "wire_pserve" =>
    let reqs ← (← j.getObjValAs? (Array Json) "reqs").toList.mapM parseReq
    let n ← getNat j "n"
    let out := Wire.pserve runK n {} reqs
    pure (some (Json.arr (out.map (fun r => match r with
      | .single v => Json.mkObj [("result", v)]
      | .gathered vs => Json.mkObj [("result", Json.arr vs.toArray)]
      | .error e => Json.mkObj [("error", e)]
      | .ack => Json.mkObj [("ack", true)])).toArray))
  | _ => pure none

/-! ### Sys: trace replay -/

def getOptNat (j : Json) (k : String) : Except String (Option Nat) :=
  match j.getObjVal? k with
  | .ok Json.null => pure none
  | .ok v => do pure (some (← v.getNat?))
  | .error _ => pure none

def getNatList (j : Json) (k : String) : Except String (List Nat) :=
  match j.getObjVal? k with
  | .ok v => do pure (← fromJson? (α := Array Nat) v).toList
  | .error _ => pure []

structure SysCase where
  cfg : Sys.Cfg
  base : List Int
  fail : List (Option String)
  script : List Sys.Cmd

def SysCase.eval (c : SysCase) (i : Nat) (inputs : List Int) : Except String Int :=
  match c.fail.getD i none with
  | some e => .error e
  | none => .ok (c.base.getD i 0 + inputs.foldl (· + ·) 0)

def parseCmd (j : Json) : Except String Sys.Cmd := do
  match ← getStr j "c" with
  | "submit" => pure .submit
  | "cancel" => pure (.cancel (← getNat j "i"))
  | "await" => pure (.await (← getNat j "i"))
  | "shutdown" => pure (.shutdown (← getBool j "wait") (← getBool j "cancel"))
  | c => throw s!"unknown cmd {c}"

def parseSysCase (j : Json) : Except String SysCase := do
  let cj ← j.getObjVal? "cfg"
  let callsJ ← cj.getObjValAs? (Array Json) "calls"
  let calls ← callsJ.toList.mapM (fun e => do
    let deps ← getNatList e "deps"
    let cores ← getOptNat e "cores"
    let threads ← getOptNat e "threads"
    let hasRes := (e.getObjValAs? Bool "hasRes").toOption.getD false
    pure ({ deps := deps, cores := cores, threads := threads, hasRes := hasRes } : Sys.CallSpec))
  let base ← callsJ.toList.mapM (fun e => do pure ((e.getObjValAs? Int "base").toOption.getD 0))
  let fail ← callsJ.toList.mapM (fun e => getOptStr e "fail")
  let vRes ← getBool cj "resolver"
  let vBlock ← getOptNat cj "block"
  let vMc ← getOptNat cj "maxCores"
  let vMw ← getOptNat cj "maxWorkers"
  let vEc := (cj.getObjValAs? Nat "execCores").toOption.getD 1
  let vEt := (cj.getObjValAs? Nat "execThreads").toOption.getD 1
  let cfg : Sys.Cfg := Sys.Cfg.mk vRes vBlock vMc vMw vEc vEt calls
  let script ← (← j.getObjValAs? (Array Json) "script").toList.mapM parseCmd
  pure { cfg, base, fail, script }

def parseLabel (j : Json) : Except String (Sys.Label Int String) := do
  let l ← getStr j "l"
  let b := (j.getObjValAs? Bool "r").toOption.getD false
  let k := (j.getObjValAs? Nat "k").toOption.getD 0
  let i := (j.getObjValAs? Nat "i").toOption.getD 0
  match l with
  | "mSubmit" => pure .mSubmit | "mSubmitRaise" => pure .mSubmitRaise
  | "mCancel" => pure (.mCancel i) | "mAwait" => pure (.mAwait i) | "mSdBegin" => pure .mSdBegin
  | "sdDrainGet" => pure (.sdDrainGet b) | "sdDrainSkip" => pure (.sdDrainSkip b)
  | "sdDrainCancel" => pure (.sdDrainCancel b) | "sdDrainDone" => pure (.sdDrainDone b)
  | "sdDrainEmpty" => pure (.sdDrainEmpty b) | "sdPutStop" => pure (.sdPutStop b)
  | "sdJoinThread" => pure (.sdJoinThread b) | "sdJoinThreadRaise" => pure (.sdJoinThreadRaise b)
  | "sdJoinQueue" => pure (.sdJoinQueue b) | "sdFinish" => pure (.sdFinish b)
  | "rGet" => pure .rGet | "rDecideReady" => pure .rDecideReady | "rDecidePark" => pure .rDecidePark
  | "rForward" => pure .rForward | "rFailDep" => pure .rFailDep | "rFailSet" => pure .rFailSet | "rAck" => pure .rAck
  | "rScanFwd" => pure (.rScanFwd k) | "rScanFail" => pure (.rScanFail k)
  | "rBeginSd" => pure .rBeginSd | "rStopAck" => pure .rStopAck | "rJoinExit" => pure .rJoinExit
  | "dGet" => pure .dGet | "dPrune" => pure (.dPrune k) | "dLaunch" => pure .dLaunch | "dAck" => pure .dAck
  | "dJoinThread" => pure .dJoinThread | "dJoinThreadRaise" => pure .dJoinThreadRaise
  | "dStopAck" => pure .dStopAck | "dJoinExit" => pure .dJoinExit
  | "wBoot" => pure (.wBoot k) | "wGet" => pure (.wGet k) | "wSrn" => pure (.wSrn k)
  | "wSend" => pure (.wSend k) | "wFinish" => pure (.wFinish k) | "wFailA" => pure (.wFailA k)
  | "wFailB" => pure (.wFailB k) | "wFailC" => pure (.wFailC k) | "wProcStop" => pure (.wProcStop k)
  | "wAck" => pure (.wAck k) | "wStopAck" => pure (.wStopAck k) | "wJoinExit" => pure (.wJoinExit k)
  | _ => throw s!"unknown label {l}"

def labelName (l : Sys.Label Int String) : String := (reprStr l)

def jFut : Sys.Fut Int String → Json
  | .absent => "absent" | .pending => "pending" | .running => "running" | .cancelled => "cancelled"
  | .cancelledNotified => "cancelledNotified"
  | .finished v => Json.mkObj [("finished", toJson v)]
  | .failed e => Json.mkObj [("failed", Json.str e)]

def jSysState (s : Sys.State Int String) : Json :=
  Json.mkObj [("fut", Json.arr (s.fut.map jFut).toArray), ("script_left", toJson s.script.length),
    ("raised", toJson s.raised), ("mainPc", Json.str (reprStr s.mainPc)),
    ("res", Json.str (reprStr s.res)), ("disp", Json.str (reprStr s.disp)),
    ("wk", Json.arr (s.wk.map (fun w => Json.mkObj [("pc", Json.str (reprStr w.pc)), ("q", Json.str (reprStr w.q)),
        ("procAlive", Json.bool w.procAlive), ("procSpawned", Json.bool w.procSpawned),
        ("served", Json.arr (w.served.map (fun (n : Nat) => toJson n)).toArray)])).toArray),
    ("qo", Json.str (reprStr s.qo)), ("qi", Json.str (reprStr s.qi)),
    ("waitLst", Json.arr (s.waitLst.map (fun (n : Nat) => toJson n)).toArray),
    ("active", Json.str (reprStr s.active)),
    ("sentLog", Json.arr (s.sentLog.map (fun (n : Nat) => toJson n)).toArray),
    ("cancelOk", Json.arr (s.cancelOk.map (fun (n : Nat) => toJson n)).toArray),
    ("frontOpen", Json.bool s.frontOpen), ("innerOpen", Json.bool s.innerOpen)]

def sysOps (op : String) (j : Json) : Except String (Option Json) := do
  match op with
  | "sys_replay" =>
    let c ← parseSysCase j
    let labels ← (← j.getObjValAs? (Array Json) "labels").toList.mapM parseLabel
    let stepf := Sys.step c.cfg c.eval "CancelledError"
    let rec go (s : Sys.State Int String) (idx : Nat) : List (Sys.Label Int String) → Json
      | [] => Json.mkObj [("accepted", true), ("steps", toJson idx), ("state", jSysState s),
          ("enabled", Json.arr ((Sys.enabled c.cfg c.eval "CancelledError" s).map (fun p => Json.str (labelName p.1))).toArray)]
      | l :: ls => match stepf s l with
        | some s' => go s' (idx + 1) ls
        | none => Json.mkObj [("accepted", false), ("index", toJson idx), ("label", Json.str (labelName l)),
            ("state", jSysState s),
            ("enabled", Json.arr ((Sys.enabled c.cfg c.eval "CancelledError" s).map (fun p => Json.str (labelName p.1))).toArray)]
    pure (some (go (Sys.init c.cfg c.script) 0 labels))
  | "sys_check_inv" =>
    -- replay a trace and evaluate the executable protocol invariants (SysLiveDefs) in every state
    let c ← parseSysCase j
    let labels ← (← j.getObjValAs? (Array Json) "labels").toList.mapM parseLabel
    let stepf := Sys.step c.cfg c.eval "CancelledError"
    let bad (s : Sys.State Int String) : List String := ((Sys.liveInvList c.cfg s).filter (fun p => !p.2)).map (·.1)
    let rec goInv (s : Sys.State Int String) (idx : Nat) : List (Sys.Label Int String) → Json
      | [] =>
        let en := Sys.enabled c.cfg c.eval "CancelledError" s
        Json.mkObj [("accepted", true), ("steps", toJson idx), ("violated", Json.null),
          ("stuck", Json.bool en.isEmpty), ("allAcceptedDone", Json.bool (Sys.allAcceptedDone s)),
          ("mainFinished", Json.bool (Sys.mainFinished s)), ("noProcessAlive", Json.bool (Sys.noProcessAlive s)),
          ("frontOpen", Json.bool s.frontOpen)]
      | l :: ls => match stepf s l with
        | some s' =>
          match bad s' with
          | [] => goInv s' (idx + 1) ls
          | names => Json.mkObj [("accepted", true), ("violated", toJson names), ("index", toJson idx),
              ("label", Json.str (labelName l)), ("state", jSysState s')]
        | none => Json.mkObj [("accepted", false), ("index", toJson idx)]
    match bad (Sys.init c.cfg c.script) with
    | [] => pure (some (goInv (Sys.init c.cfg c.script) 0 labels))
    | names => pure (some (Json.mkObj [("accepted", true), ("violated", toJson names), ("index", toJson (0 : Nat)), ("label", Json.str "init")]))
  | _ => pure none


/-! ### Args: the two traversals of the dependency resolver -/

partial def parseArg (j : Json) : Except String (Args.Arg Int) := do
  -- the Python class of a container node: key "cls", default the plain builtin
  let cls (dflt : String) : String := (j.getObjValAs? String "cls").toOption.getD dflt
  match j.getObjVal? "v" with
  | .ok v => pure (.val (← v.getInt?))
  | .error _ =>
  match j.getObjVal? "f" with
  | .ok v => pure (.fut (← v.getNat?))
  | .error _ =>
  match j.getObjVal? "l" with
  | .ok (Json.arr xs) => pure (.list (cls "list") (← xs.toList.mapM parseArg))
  | .ok _ => throw "l: expected array"
  | .error _ =>
  match j.getObjVal? "t" with
  | .ok (Json.arr xs) => pure (.tuple (cls "tuple") (← xs.toList.mapM parseArg))
  | .ok _ => throw "t: expected array"
  | .error _ =>
  match j.getObjVal? "d" with
  | .ok (Json.arr xs) => do
    let kvs ← xs.toList.mapM (fun e => match e with
      | Json.arr #[Json.str k, v] => do pure (k, ← parseArg v)
      | _ => throw "d: expected [key, tree] pairs")
    pure (.dict (cls "dict") kvs)
  | _ => throw "unknown argument tree"

partial def jArg : Args.Arg Int → Json
  | .val v => Json.mkObj [("v", toJson v)]
  | .fut j => Json.mkObj [("f", toJson j)]
  | .list c xs => Json.mkObj ([("l", Json.arr (xs.map jArg).toArray)] ++ (if c == "list" then [] else [("cls", Json.str c)]))
  | .tuple c xs => Json.mkObj ([("t", Json.arr (xs.map jArg).toArray)] ++ (if c == "tuple" then [] else [("cls", Json.str c)]))
  | .dict c kvs => Json.mkObj ([("d", Json.arr (kvs.map (fun (k, a) => Json.arr #[Json.str k, jArg a])).toArray)]
      ++ (if c == "dict" then [] else [("cls", Json.str c)]))

def argsOps (op : String) (j : Json) : Except String (Option Json) := do
  match op with
  | "args_traverse" =>
    let args ← (← j.getObjValAs? (Array Json) "args").toList.mapM parseArg
    let kw ← (← j.getObjValAs? (Array Json) "kwargs").toList.mapM (fun e => match e with
      | Json.arr #[Json.str k, v] => do pure (k, ← parseArg v)
      | _ => throw "kwargs: expected [key, tree] pairs")
    let done := (← j.getObjValAs? (Array Bool) "done").toList
    let vals := (← j.getObjValAs? (Array Int) "vals").toList
    let c : Args.Call Int := { args := args, kwargs := kw }
    let c' := c.subst (fun k => vals.getD k 0)
    pure (some (Json.mkObj [("futures", toJson c.futures), ("ready", Json.bool (c.ready (fun k => done.getD k false))),
      ("subst", Json.mkObj [("args", Json.arr (c'.args.map jArg).toArray),
        ("kwargs", Json.arr (c'.kwargs.map (fun (k, a) => Json.arr #[Json.str k, jArg a])).toArray)])]))
  | _ => pure none

/-! ### Res: per-call resources -/

def parseRD (j : Json) : Except String Res.RD := do
  let optNat (k : String) : Except String (Option Nat) := match j.getObjVal? k with
    | .ok v => do pure (some (← v.getNat?))
    | .error _ => pure none
  let cwd : Option (Option Tok) ← (match j.getObjVal? "cwd" with
    | .ok Json.null => pure (some none)
    | .ok (Json.str d) => pure (some (some (tok d)))
    | .ok _ => throw "cwd: expected string or null"
    | .error _ => pure none)
  let oversub : Option Bool ← (match j.getObjVal? "openmpi_oversubscribe" with
    | .ok (Json.bool b) => pure (some b)
    | .ok _ => throw "openmpi_oversubscribe: expected bool"
    | .error _ => pure none)
  let extra : Option (List Tok) ← (match j.getObjVal? "slurm_cmd_args" with
    | .ok v => do pure (some ((← fromJson? (α := Array String) v).toList.map tok))
    | .error _ => pure none)
  pure { cores := ← optNat "cores", threads := ← optNat "threads_per_core", gpus := ← optNat "gpus_per_core",
         cwd := cwd, oversub := oversub, extra := extra }

def jRD (r : Res.RD) : Json :=
  Json.mkObj ((match r.cores with | some n => [("cores", toJson n)] | none => [])
    ++ (match r.threads with | some n => [("threads_per_core", toJson n)] | none => [])
    ++ (match r.gpus with | some n => [("gpus_per_core", toJson n)] | none => [])
    ++ (match r.cwd with | some d => [("cwd", jOptTok d)] | none => [])
    ++ (match r.oversub with | some b => [("openmpi_oversubscribe", Json.bool b)] | none => [])
    ++ (match r.extra with | some a => [("slurm_cmd_args", jToks a)] | none => []))

def resOps (op : String) (j : Json) : Except String (Option Json) := do
  match op with
  | "res_dispatch" =>
    -- executor-level dictionary, sequence of per-call dictionaries, launcher, worker command
    let ex ← parseRD (← j.getObjVal? "ex")
    let pcs ← (← j.getObjValAs? (Array Json) "pcs").toList.mapM parseRD
    let l := if (← getStr j "launcher") == "srun" then Res.Launcher.srun else Res.Launcher.mpiexec
    let serial := (← getStrList j "serial").map tok
    let parallel := (← getStrList j "parallel").map tok
    let (ex', effs) := Res.dispatchAll ex pcs
    let outs := (effs.zip pcs).map (fun (e, pc) =>
      let cmd := if e.cores.getD 1 > 1 then parallel else serial
      Json.mkObj [("kw", jRD e), ("slots", toJson (Res.slots ex pc)),
        ("launch", match Res.launch l e cmd with
          | .ok (argv, cwd) => Json.mkObj [("argv", jToks argv), ("cwd", jOptTok cwd)]
          | .error e => Json.mkObj [("error", Json.str e)])])
    pure (some (Json.mkObj [("ex_after", jRD ex'), ("calls", Json.arr outs.toArray)]))
  | "res_file_dispatch" =>
    -- file mode: executor-level dictionary as given to FileExecutor, the per-call dictionaries of a sequence of tasks
    let ex := Res.fileDefaults (← parseRD (← j.getObjVal? "ex"))
    let pcs ← (← j.getObjValAs? (Array Json) "pcs").toList.mapM parseRD
    let py := tok (← getStr j "python")
    let serial := tok (← getStr j "serial")
    let parallel := tok (← getStr j "parallel")
    let file := tok (← getStr j "file")
    let cacheDir := tok (← getStr j "cache_directory")
    let (ex', pcs', effs) := Res.fileDispatchAll ex pcs
    let outs := effs.map (fun e =>
      let (argv, cwd) := Res.fileLaunch e py serial parallel file cacheDir
      Json.mkObj [("rd", jRD e), ("argv", jToks argv), ("cwd", jOptTok cwd)])
    pure (some (Json.mkObj [("ex_after", jRD ex'), ("pcs_after", Json.arr (pcs'.map jRD).toArray), ("calls", Json.arr outs.toArray)]))
  | _ => pure none

/-! ### Key / Cache -/

def keyOps (op : String) (j : Json) : Except String (Option Json) := do
  match op with
  | "key_blank" =>
    let bs := (← j.getObjValAs? (Array Nat) "bytes").toList.map (fun n => UInt8.ofNat n)
    let greedy := (j.getObjValAs? Bool "greedy").toOption.getD false
    let out := if greedy then Key.blankGreedy bs else Key.blank bs
    pure (some (toJson (out.map (fun b => b.toNat))))
  | "cache_replay" =>
    -- sessions over one directory: each = worker todo lists (call ids) + labels; keyOf / evalOf per call id
    let atomic ← getBool j "atomic"
    let keyOf := (← j.getObjValAs? (Array Nat) "keyOf").toList
    let evalOf := (← j.getObjValAs? (Array Int) "evalOf").toList
    let sessions := (← j.getObjValAs? (Array Json) "sessions").toList
    let key : Nat → Nat := fun c => keyOf.getD c 0
    let eval : Nat → Int := fun c => evalOf.getD c 0
    let parseL (e : Json) : Except String Cache.Label := do
      let w ← getNat e "w"
      match ← getStr e "l" with
      | "look" => pure (.look w) | "compute" => pure (.compute w)
      | "create" => pure (.create w) | "write" => pure (.write w)
      | "lookCancelled" => pure (.lookCancelled w)
      | x => throw s!"unknown cache label {x}"
    let rec go (dir : Cache.Dir Nat Int) (acc : List Json) : List Json → Except String Json
      | [] => pure (Json.mkObj [("accepted", true), ("sessions", Json.arr acc.reverse.toArray),
                ("dir", Json.arr (dir.map (fun (k, v) => Json.arr #[toJson k, match v with | some x => toJson x | none => Json.null])).toArray)])
      | sj :: rest => do
        let todos := (← sj.getObjValAs? (Array (Array Nat)) "todos").toList.map (·.toList)
        let labels ← (← sj.getObjValAs? (Array Json) "labels").toList.mapM parseL
        let s0 : Cache.State Nat Nat Int := { dir := dir, wk := todos.map (fun t => { todo := t }) }
        let rec replay (s : Cache.State Nat Nat Int) (idx : Nat) : List Cache.Label → Except Nat (Cache.State Nat Nat Int)
          | [] => .ok s
          | l :: ls => match Cache.step atomic key eval s l with
            | some s' => replay s' (idx + 1) ls
            | none => .error idx
        match replay s0 0 labels with
        | .ok s =>
          let r := Json.mkObj [("results", Json.arr (s.results.map (fun (c, v) => Json.arr #[toJson c, match v with | some x => toJson x | none => Json.null])).toArray),
            ("dropped", Json.arr (s.dropped.map (fun c => toJson c)).toArray),
            ("pending", Json.arr (s.wk.map (fun w => toJson w.todo.length)).toArray)]
          go s.dir (r :: acc) rest
        | .error idx => pure (Json.mkObj [("accepted", false), ("session", toJson acc.length), ("index", toJson idx)])
    pure (some (← go [] [] sessions))
  | _ => pure none

/-! ### Plot -/

def parsePArg (j : Json) : Except String Plot.PArg := do
  match j.getObjVal? "f" with
  | .ok v => pure (.fut (← v.getNat?))
  | .error _ =>
  match j.getObjVal? "fs" with
  | .ok v => pure (.futs (← fromJson? (α := Array Nat) v).toList)
  | .error _ => pure (.val (← getStr j "v"))

def plotOps (op : String) (j : Json) : Except String (Option Json) := do
  match op with
  | "plot_graph" =>
    let prog ← (← j.getObjValAs? (Array Json) "prog").toList.mapM (fun c => do
      let args ← (← c.getObjValAs? (Array Json) "args").toList.mapM parsePArg
      let kw ← (← c.getObjValAs? (Array Json) "kwargs").toList.mapM (fun e => match e with
        | Json.arr #[Json.str k, v] => do pure (k, ← parsePArg v)
        | _ => throw "kwargs: expected [key, arg] pairs")
      pure ({ fn := ← getStr c "fn", args := args, kwargs := kw } : Plot.PCall))
    let asFound := (j.getObjValAs? Bool "asFound").toOption.getD false
    let g := if asFound then Plot.genGraph id (C20.tableAsFound prog) else Plot.graphOf prog
    pure (some (Json.mkObj [
      ("nodes", Json.arr (g.nodes.map (fun n => Json.mkObj [("id", toJson n.id), ("name", Json.str n.name),
          ("shape", Json.str (if n.box then "box" else "circle"))])).toArray),
      ("edges", Json.arr (g.edges.map (fun e => Json.mkObj [("start", toJson e.start), ("end", toJson e.stop),
          ("label", Json.str e.label)])).toArray)]))
  | _ => pure none

/-! ### FileExec: replay of file-mode session histories -/

def fileOps (op : String) (j : Json) : Except String (Option Json) := do
  match op with
  | "file_replay" =>
    let vj ← j.getObjVal? "variant"
    let v : FileExec.Variant := { depsLaunchedOnly := ← getBool vj "depsLaunchedOnly", staleInputRemoved := ← getBool vj "staleInputRemoved" }
    let sessions := (← j.getObjValAs? (Array Json) "sessions").toList
    let parseL (e : Json) : Except String FileExec.Label := do
      let p := (e.getObjValAs? Nat "p").toOption.getD 0
      let k := (e.getObjValAs? Nat "k").toOption.getD 0
      match ← getStr e "l" with
      | "submit" => pure .submit | "take" => pure .take | "lookup" => pure .lookup
      | "writeInput" => pure .writeInput | "launch" => pure .launch | "collect" => pure (.collect k)
      | "pLoad" => pure (.pLoad p) | "pCall" => pure (.pCall p) | "pStage" => pure (.pStage p)
      | "pWrite" => pure (.pWrite p) | "pPublish" => pure (.pPublish p)
      | "crashProc" => pure (.crashProc p) | "crashWrite" => pure (.crashWrite p)
      | x => throw s!"unknown file label {x}"
    let jState (s : FileExec.State Nat Int) : Json :=
      Json.mkObj [("loop", Json.str (reprStr s.loop)), ("queue", toJson s.queue), ("memory", Json.str (reprStr s.memory)),
        ("procs", Json.str (reprStr (s.procs.map (fun p => (p.key, p.call, reprStr p.pc))))),
        ("dir", Json.str (reprStr s.dir)), ("dropped", toJson s.dropped)]
    let rec go (dir : FileExec.Dir Nat Int) (acc : List Json) : List Json → Except String Json
      | [] => pure (Json.mkObj [("accepted", true), ("sessions", Json.arr acc.reverse.toArray)])
      | sj :: rest => do
        let ncalls ← getNat sj "ncalls"
        let deps := (← sj.getObjValAs? (Array (Array Nat)) "deps").toList.map (·.toList)
        let weights := (← sj.getObjValAs? (Array (Array Int)) "weights").toList.map (·.toList)
        let base := (← sj.getObjValAs? (Array Int) "base").toList
        let keyOf := (← sj.getObjValAs? (Array Nat) "keyOf").toList
        let labels ← (← sj.getObjValAs? (Array Json) "labels").toList.mapM parseL
        let depsF : Nat → List Nat := fun i => deps.getD i []
        let keyF : Nat → Nat := fun i => keyOf.getD i 0
        let evalF : Nat → List Int → Int := fun i vs =>
          base.getD i 0 + ((weights.getD i []).zip vs).foldl (fun a wv => a + wv.1 * wv.2) 0
        let s0 : FileExec.State Nat Int := FileExec.init (FileExec.restart dir) ncalls
        let rec replay (s : FileExec.State Nat Int) (idx : Nat) : List FileExec.Label → Except (Nat × FileExec.State Nat Int) (FileExec.State Nat Int)
          | [] => .ok s
          | l :: ls => match FileExec.step v ncalls depsF keyF evalF s l with
            | some s' => replay s' (idx + 1) ls
            | none => .error (idx, s)
        match replay s0 0 labels with
        | .ok s =>
          let r := Json.mkObj [
            ("futures", Json.arr ((List.range ncalls).map (fun i => match FileExec.futOf s i with
              | .finished x => toJson x
              | _ => Json.null)).toArray),
            ("loop_dead", Json.bool (s.loop == .dead)), ("dropped", toJson s.dropped), ("executed", toJson s.executed),
            ("published", Json.arr ((s.dir.filter (fun e => e.2.out.isSome)).map (fun e => Json.arr #[toJson e.1, toJson (e.2.out.getD 0)])).toArray)]
          go s.dir (r :: acc) rest
        | .error (idx, s) => pure (Json.mkObj [("accepted", false), ("session", toJson acc.length), ("index", toJson idx), ("state", jState s)])
    pure (some (← go [] [] sessions))
  | _ => pure none

/-! ### Config: constructor / submit decision table -/

def parseCfgRD (j : Json) : Except String Config.RD := do
  let optNat (k : String) : Except String (Option Nat) := match j.getObjVal? k with
    | .ok v => do pure (some (← v.getNat?))
    | .error _ => pure none
  let cwd : Config.Cwd := match j.getObjVal? "cwd" with
    | .ok (Json.str "none") => .none | .ok (Json.str "ok") => .ok | .ok (Json.str "missing") => .missing | _ => .absent
  let extra : Config.Extra := match j.getObjVal? "slurm_cmd_args" with
    | .ok (Json.str "empty") => .empty | .ok (Json.str "nonempty") => .nonempty | _ => .absent
  let oversub : Option Bool := match j.getObjVal? "openmpi_oversubscribe" with
    | .ok (Json.bool b) => some b | _ => none
  pure { cores := ← optNat "cores", threads := ← optNat "threads_per_core", gpus := ← optNat "gpus_per_core", cwd := cwd,
         oversub := oversub, extra := extra, unknown := (j.getObjValAs? Bool "unknown_key").toOption.getD false }

def configOps (op : String) (j : Json) : Except String (Option Json) := do
  match op with
  | "config_decide" =>
    let b (k : String) : Bool := (j.getObjValAs? Bool k).toOption.getD false
    let backend : Config.Backend := match (j.getObjValAs? String "backend").toOption.getD "local" with
      | "local" => .local | "slurm_allocation" => .slurmAlloc | "flux_allocation" => .fluxAlloc
      | "local_submission" => .localSub | "slurm_submission" => .slurmSub | "flux_submission" => .fluxSub | _ => .other
    let rd ← (match j.getObjVal? "rd" with | .ok v => parseCfgRD v | .error _ => pure {})
    let pc ← (match j.getObjVal? "percall" with | .ok v => parseCfgRD v | .error _ => pure {})
    let o : Config.Opts := {
      backend := backend, block := b "block_allocation", noDeps := b "disable_dependencies",
      maxWorkers := (← getOptNat j "max_workers"), maxCores := (← getOptNat j "max_cores"), rd := rd,
      initFn := b "init_function",
      hostLocal := (match j.getObjVal? "hostname_localhost" with | .ok (Json.bool x) => some x | _ => none),
      refresh := (match (j.getObjValAs? String "refresh_rate").toOption.getD "default" with
        | "other" => .other | "negative" => .negative | _ => .dflt),
      fluxExec := b "flux_executor",
      pmi := (match (j.getObjValAs? String "pmi").toOption with | some "pmix" => .pmix | some "bad" => .bad | _ => .none),
      nesting := b "nesting", pysqaDir := b "pysqa_config_directory", plot := b "plot", cacheDir := b "cache_directory" }
    let env : Config.Env := { flux := b "env_flux", pysqa := b "env_pysqa", mpi := (j.getObjValAs? Bool "env_mpi").toOption.getD true,
                              ncpu := (j.getObjValAs? Nat "env_ncpu").toOption.getD 16 }
    let jExc : Config.Exc → Json
      | .valueError => "ValueError" | .typeError => "TypeError" | .nameError => "NameError"
    match Config.construct env o with
    | .error e => pure (some (Json.mkObj [("construct", jExc e)]))
    | .ok p =>
      match Config.submitCheck p pc (b "fn_has_resource_dict_param") with
      | .error e => pure (some (Json.mkObj [("construct", Json.null), ("submit", jExc e)]))
      | .ok () =>
        pure (some (Json.mkObj [("construct", Json.null), ("submit", Json.null),
          ("runnable", Json.bool (Config.Runnable env p pc)),
          ("region", match Config.regionOf env p pc with
            | none => Json.null
            | some r => Json.str (reprStr r)),
          ("kind", Json.str (reprStr p.kind)), ("plot", Json.bool (p.resolver && p.plot))]))
  | _ => pure none

/-! ### Pub: file-system calls on cache entries -/

def parsePubPath (j : Json) : Except String Pub.Path := do
  pure { fs := ← getNat j "fs", dir := ← getNat j "dir", name := ← getStr j "name", final := ← getBool j "final" }

def pubOps (op : String) (j : Json) : Except String (Option Json) := do
  match op with
  | "pub_replay" =>
    let ops ← (← j.getObjValAs? (Array Json) "ops").toList.mapM (fun o => do
      let k ← getStr o "op"
      match k with
      | "crash" => pure Pub.Op.crash
      | "rename" => pure (Pub.Op.rename (← parsePubPath (← o.getObjVal? "p")) (← parsePubPath (← o.getObjVal? "q")))
      | _ =>
        let p ← parsePubPath (← o.getObjVal? "p")
        match k with
        | "create" => pure (Pub.Op.create p) | "reopen" => pure (Pub.Op.reopen p)
        | "write" => pure (Pub.Op.write p (← getNat o "n")) | "close" => pure (Pub.Op.close p)
        | "unlink" => pure (Pub.Op.unlink p)
        | _ => throw s!"pub op {k}")
    let invB (s : Pub.State) : Bool := s.all (fun f => !f.path.final || f.writers == 0)
    -- the executable counterpart of theorem inv_every_prefix: the invariant in the state after every prefix
    let rec prefixes (s : Pub.State) (l : List Pub.Op) (i : Nat) : Option Nat :=
      match l with
      | [] => if invB s then none else some i
      | o :: r => if invB s then prefixes (Pub.step s o) r (i + 1) else some i
    let fin := Pub.run [] ops
    pure (some (Json.mkObj [
      ("accepted", Json.bool (Pub.runD [] ops).isSome),
      ("first_bad", match Pub.firstBad [] ops 0 with | some i => toJson i | none => Json.null),
      ("invariant_fails_after", match prefixes [] ops 0 with | some i => toJson i | none => Json.null),
      ("finals", Json.arr ((Pub.finals fin).map (fun (p, b) => Json.mkObj [("name", Json.str p.name), ("bytes", toJson b)])).toArray)]))
  | _ => pure none

/-! ### Conn: shutdown of one worker connection with process faults -/

def connOps (op : String) (j : Json) : Except String (Option Json) := do
  match op with
  | "conn_outcomes" =>
    let p ← (match (← getStr j "proc") with
      | "running" => pure Conn.Proc.running | "dying" => pure Conn.Proc.dying
      | "reapable" => pure Conn.Proc.reapable | "reaped" => pure Conn.Proc.reaped
      | x => throw s!"proc {x}")
    pure (some (toJson (C05Conn.outcomes p (← getBool j "faults"))))
  | _ => pure none

end H

def handlers : List (String → Json → Except String (Option Json)) := [H.cmdOps, H.presetOps, H.wireOps, H.sysOps, H.argsOps, H.resOps, H.keyOps, H.plotOps, H.fileOps, H.configOps, H.pubOps, H.connOps]

def handle (line : String) : Json :=
  match Json.parse line with
  | .error e => bad s!"json: {e}"
  | .ok j =>
    match getStr j "op" with
    | .error e => bad e
    | .ok op =>
      let rec go : List (String → Json → Except String (Option Json)) → Json
        | [] => bad s!"unknown op {op}"
        | h :: hs => match h op j with
          | .error e => bad e
          | .ok (some r) => r
          | .ok none => go hs
      go handlers

partial def loop (hin hout : IO.FS.Stream) : IO Unit := do
  let line ← hin.getLine
  if line.isEmpty then return ()
  let l := line.trimAscii.toString
  if l.isEmpty then loop hin hout else
  hout.putStrLn (handle l).compress
  hout.flush
  loop hin hout

def main : IO Unit := do loop (← IO.getStdin) (← IO.getStdout)
