"""Recording stand-in for networkx (not installed in /venv): only what executorlib.standalone.plot.draw
uses.  Every graph handed to the drawing pipeline is appended to `RECORDED` so that the verification
harness can compare it with the model's graph; nothing is rendered."""
RECORDED = []


class DiGraph:
    def __init__(self):
        self.nodes_rec = []
        self.edges_rec = []

    def add_node(self, n, **attr):
        self.nodes_rec.append({"id": n, **attr})

    def add_edge(self, u, v, **attr):
        self.edges_rec.append({"start": u, "end": v, **attr})


class _AGraph:
    def __init__(self, graph):
        self._graph = graph

    def draw(self, prog=None, format=None):  # noqa: A002
        RECORDED.append({"nodes": list(self._graph.nodes_rec), "edges": list(self._graph.edges_rec), "prog": prog, "format": format})
        return "<svg/>"


class nx_agraph:  # noqa: N801
    @staticmethod
    def to_agraph(graph):
        return _AGraph(graph)
