"""Stand-in for mpi4py.MPI over a directory "hub" (see harness/standins/bin/mpiexec).
Implements what executorlib's backends use: COMM_WORLD.Get_rank/Get_size, bcast(obj, root=0),
gather(obj, root=0) (list ordered by rank at the root, None elsewhere), Barrier(), and
MPI.pickle.__init__(dumps, loads, protocol).  Collectives are matched by a per-process sequence
number, exactly as MPI matches them by call order on a communicator."""
import os
import pickle as _pickle
import time

_RANK = int(os.environ.get("VH_MPI_RANK", "0"))
_SIZE = int(os.environ.get("VH_MPI_SIZE", "1"))
_HUB = os.environ.get("VH_MPI_HUB")


class _Pickle:
    def __init__(self, dumps=_pickle.dumps, loads=_pickle.loads, protocol=_pickle.HIGHEST_PROTOCOL):
        self.dumps, self.loads, self.protocol = dumps, loads, protocol


pickle = _Pickle()


def _write(name, obj):
    tmp = os.path.join(_HUB, ".tmp_%d_%s" % (_RANK, name))
    with open(tmp, "wb") as fh:
        fh.write(pickle.dumps(obj))
    os.rename(tmp, os.path.join(_HUB, name))


def _read(name, timeout=120.0):
    p = os.path.join(_HUB, name)
    t0 = time.monotonic()
    while not os.path.exists(p):
        if time.monotonic() - t0 > timeout:
            raise RuntimeError("mpi stand-in: timeout waiting for " + name)
        time.sleep(0.001)
    with open(p, "rb") as fh:
        return pickle.loads(fh.read())


class _Comm:
    def __init__(self):
        self._seq = 0

    def Get_rank(self):
        return _RANK

    def Get_size(self):
        return _SIZE

    def bcast(self, obj, root=0):
        self._seq += 1
        if _SIZE == 1:
            return obj
        name = "bcast_%d" % self._seq
        if _RANK == root:
            _write(name, obj)
            return obj
        return _read(name)

    def gather(self, obj, root=0):
        self._seq += 1
        if _SIZE == 1:
            return [obj]
        _write("gather_%d_%d" % (self._seq, _RANK), obj)
        if _RANK != root:
            return None
        return [_read("gather_%d_%d" % (self._seq, r)) for r in range(_SIZE)]

    def Barrier(self):
        self._seq += 1
        if _SIZE == 1:
            return
        _write("barrier_%d_%d" % (self._seq, _RANK), True)
        for r in range(_SIZE):
            _read("barrier_%d_%d" % (self._seq, r))


COMM_WORLD = _Comm()
