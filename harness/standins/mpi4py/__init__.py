"""Stand-in for mpi4py (not installed in this sandbox): lets importlib.util.find_spec("mpi4py")
succeed so that the multi-core code paths of executorlib are reachable by the verification harness.
The MPI submodule implements the handful of collectives executorlib's backends use over a local
socket hub, started by the stand-in `mpiexec` (harness/standins/bin/mpiexec)."""
