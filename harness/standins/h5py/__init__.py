"""Record-file stand-in for h5py (the sandbox has no h5py).  Only what executorlib uses.

A file is a sequence of records  <u32 len(name)><u32 len(data)> name data .
  File(name, "a")  creates the file when missing; File(name, "r") requires it (FileNotFoundError).
  create_dataset(name, data) raises ValueError when the name exists, else appends ONE record with
  a single write() (a record is visible iff it was completely written).
  `name in f`, f[name] re-read the file; f[name] converts through numpy to np.void(bytes).
  A truncated trailing record raises OSError on access (like a corrupt HDF5 file).
  close() of a file opened with "a" appends a commit record (name "\x00closed"); a file whose last record is not a commit
  record was never closed by its writer (HDF5 writes its index at flush / close): reading it raises OSError, like opening an
  HDF5 file that was not closed properly.  An empty file (created, nothing written, not closed) is unreadable too.

Fidelity to real HDF5 is part of the trusted base (DESIGN.md 3.6).  When the environment variable
EXECUTORLIB_VERIF_FSLOG names a file, every persistence operation is appended to it, and
EXECUTORLIB_VERIF_KILL=<k> makes the process exit(137) right after its k-th persistence operation.
"""
import os
import struct

import numpy as np

__version__ = "0.0-standin"
_count = 0
_COMMIT = "\x00closed"
_hook = None      # in-process observer: callable(kind, path, detail), set by the verification harness


def _op(kind, path, detail=""):
    """Observer hook: in-process callback, and/or the cross-process persistence log (vh_fs)."""
    global _count
    if _hook is not None:
        _hook(kind, path, detail)
    if os.environ.get("EXECUTORLIB_VERIF_FSLOG"):
        import vh_fs

        vh_fs.write("h5_" + kind, file=os.path.basename(path), detail=detail)


class _Locked:
    """All reads and writes of the stand-in are atomic with respect to the persistence log."""

    def __enter__(self):
        self._l = None
        if os.environ.get("EXECUTORLIB_VERIF_FSLOG"):
            import vh_fs

            self._l = vh_fs.locked()
            self._l.__enter__()
        return self

    def __exit__(self, *exc):
        if self._l is not None:
            self._l.__exit__(*exc)
        return False


def _read(path, own=False):
    """own=True: the reader is the process that has the file open for appending (its view is not limited to closed files)."""
    recs = []
    with open(path, "rb") as fh:
        blob = fh.read()
    i = 0
    while i < len(blob):
        if i + 8 > len(blob):
            raise OSError(f"Unable to open file (truncated record header in {path})")
        ln, ld = struct.unpack("<II", blob[i : i + 8])
        if i + 8 + ln + ld > len(blob):
            raise OSError(f"Unable to open file (truncated record in {path})")
        name = blob[i + 8 : i + 8 + ln].decode()
        data = blob[i + 8 + ln : i + 8 + ln + ld]
        recs.append((name, data))
        i += 8 + ln + ld
    if own:
        return [(k, d) for k, d in recs if k != _COMMIT]
    if not recs or recs[-1][0] != _COMMIT:
        raise OSError(f"Unable to open file (file was not closed by its writer: {path})")
    return [(k, d) for k, d in recs if k != _COMMIT]


def _norm(name):
    return name.lstrip("/")


class _Dataset:
    def __init__(self, data):
        self._data = data

    def __array__(self, dtype=None, copy=None):
        return np.array(np.void(self._data))

    def __getitem__(self, item):
        return np.void(self._data)


class File:
    def __init__(self, name, mode="r"):
        self._name = name
        self._mode = mode
        if mode == "r":
            with _Locked():
                if not os.path.isfile(name):
                    _op("open_r_missing", name)
                    raise FileNotFoundError(f"Unable to open file (unable to open file: name = '{name}')")
                _op("open_r", name)
        elif mode == "a":
            with _Locked():
                existed = os.path.isfile(name)
                if not existed:
                    with open(name, "ab"):
                        pass
                _op("open_a", name, "existed" if existed else "created")
        else:
            raise ValueError("stand-in h5py supports modes 'r' and 'a' only")

    def __enter__(self):
        return self

    def __exit__(self, *exc):
        self.close()
        return False

    def close(self):
        if self._mode == "a" and not getattr(self, "_closed", False):
            self._closed = True
            with _Locked():
                nb = _COMMIT.encode()
                with open(self._name, "ab") as fh:
                    fh.write(struct.pack("<II", len(nb), 0) + nb)
                _op("close", self._name)

    def create_dataset(self, name, data=None):
        if self._mode != "a":
            raise ValueError("Unable to create dataset (no write intent on file)")
        n = _norm(name)
        with _Locked():
            if any(k == n for k, _ in _read(self._name, own=True)):
                _op("create_dataset_exists", self._name, n)
                raise ValueError("Unable to create dataset (name already exists)")
            raw = data.tobytes() if hasattr(data, "tobytes") else bytes(data)
            nb = n.encode()
            rec = struct.pack("<II", len(nb), len(raw)) + nb + raw
            with open(self._name, "ab") as fh:
                fh.write(rec)
            _op("create_dataset", self._name, n)

    def __contains__(self, name):
        n = _norm(name)
        with _Locked():
            r = any(k == n for k, _ in _read(self._name, own=(self._mode == "a")))
            if n == "output" and r:
                _op("has_output", self._name, str(r))
            return r

    def __getitem__(self, name):
        n = _norm(name)
        for k, d in _read(self._name, own=(self._mode == "a")):
            if k == n:
                return _Dataset(d)
        raise KeyError(f"Unable to open object (object '{n}' doesn't exist)")

    def keys(self):
        return [k for k, _ in _read(self._name, own=(self._mode == "a"))]
