SHOWN = []


def show(*a, **k):
    SHOWN.append(True)
