"""Recording stand-in for matplotlib (pyplot.show only)."""
