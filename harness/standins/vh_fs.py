"""Cross-process linearised log of persistence operations (engine C of the verification harness).

Active only when EXECUTORLIB_VERIF_FSLOG names a file.  Every operation is performed and logged
while holding an exclusive flock on <log>.lock, so the order of the lines IS the order in which the
operations took effect, across the submitting process and all worker processes.
EXECUTORLIB_VERIF_KILL="<role>:<k>" makes a process of that role (`parent`, or `worker` = a
cache_serial.py / cache_parallel.py process) call os._exit(137) right after its k-th operation."""
import fcntl
import json
import os
import sys
import time

LOG = os.environ.get("EXECUTORLIB_VERIF_FSLOG")
_KILL = os.environ.get("EXECUTORLIB_VERIF_KILL", "")
_count = 0
_real_rename = os.rename
_real_listdir = os.listdir
_real_exists = os.path.exists


def role():
    a0 = os.path.basename(sys.argv[0]) if sys.argv and sys.argv[0] else ""
    return "worker" if a0 in ("cache_serial.py", "cache_parallel.py") else "parent"


class locked:
    def __enter__(self):
        self.fh = open(LOG + ".lock", "a")
        fcntl.flock(self.fh, fcntl.LOCK_EX)
        return self

    def __exit__(self, *exc):
        fcntl.flock(self.fh, fcntl.LOCK_UN)
        self.fh.close()
        return False


def write(_opname, **kw):
    """Must be called with the lock held."""
    global _count
    _count += 1
    rec = {"pid": os.getpid(), "role": role(), "n": _count, "op": _opname, "t": time.monotonic()}
    rec.update(kw)
    with open(LOG, "a") as fh:
        fh.write(json.dumps(rec, default=str) + "\n")
    if _KILL:
        r, _, k = _KILL.partition(":")
        if r == role() and k and _count == int(k):
            os._exit(137)


def record(_opname, **kw):
    if LOG is None:
        return
    with locked():
        write(_opname, **kw)


def install():
    if LOG is None or getattr(os, "_vh_fs_installed", False):
        return
    os._vh_fs_installed = True

    def rename(src, dst, *a, **k):
        with locked():
            _real_rename(src, dst, *a, **k)
            write("rename", src=os.path.basename(str(src)), dst=os.path.basename(str(dst)))

    def listdir(path="."):
        with locked():
            r = _real_listdir(path)
            if any(str(x).endswith((".h5in", ".h5out", ".h5ready", ".h5tmp")) for x in r) or str(path).rstrip("/").endswith("cache"):
                write("listdir", files=sorted(r))
            return r

    def exists(path):
        p = str(path)
        if not p.endswith((".h5in", ".h5out", ".h5ready")):
            return _real_exists(path)
        with locked():
            r = _real_exists(path)
            if r:       # a negative poll changes nothing and is not an event (busy-wait stutter)
                write("exists", file=os.path.basename(p), r=True)
            return r

    os.rename = rename
    os.listdir = listdir
    os.path.exists = exists
