"""Recording stand-in for IPython (display only)."""
