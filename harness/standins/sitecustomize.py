"""Loaded automatically by every interpreter that has harness/standins on its path.  Does nothing
unless the verification harness asked for the persistence log (EXECUTORLIB_VERIF_FSLOG)."""
import os

if os.environ.get("EXECUTORLIB_VERIF_FSLOG"):
    try:
        import vh_fs

        vh_fs.install()
    except Exception:  # noqa
        pass
