"""C10 — per-call resources.  Lean: Props/C10.lean (precedence, precedence_cores, frame,
launch_srun_exact, launch_local_exact, block_rejects); tie: the real
`_submit_function_to_separate_process` -> `execute_parallel_tasks` -> spawner -> Popen chain with
Popen recorded, on sequences of calls sharing one executor-level dictionary; real per-call launches
for the working directory; block allocation rejecting per-call dictionaries on every path."""
from __future__ import annotations

import copy
import json
import os
import queue
import re
import sys
import tempfile
from concurrent.futures import Future

from .common import Ctx, InfraError, ast_hashes, run_check

ANCHORS = {
    "executorlib/interactive/shared.py": ["_submit_function_to_separate_process", "execute_parallel_tasks", "execute_separate_tasks",
                                          "_get_backend_path", "ExecutorBroker"],
    "executorlib/interactive/executor.py": ["ExecutorWithDependencies", "create_executor"],
    "executorlib/standalone/interactive/spawner.py": ["SubprocessSpawner", "MpiExecSpawner", "SrunSpawner",
                                                      "generate_mpiexec_command", "generate_slurm_command"],
    "executorlib/standalone/interactive/communication.py": ["interface_bootup"],
    "executorlib/standalone/inputcheck.py": ["check_resource_dict_is_empty"],
}

KEYS = ["cores", "threads_per_core", "gpus_per_core", "cwd", "openmpi_oversubscribe", "slurm_cmd_args"]
LOCAL_KEYS = ["cores", "threads_per_core", "cwd", "openmpi_oversubscribe"]
CWDS = [None, "/tmp", "/a b/c", "rel", "/x=y", "-dash", ""]
EXTRA = [[], ["--account=test"], ["--job-name=x", "-p"], ["--mem=4G"]]


class PopenRecorder:
    calls = []

    def __init__(self, args=None, cwd=None, **kw):
        import threading

        PopenRecorder.calls.append({"args": list(args), "cwd": cwd, "thread": threading.get_ident()})

    def poll(self):
        return 0

    def communicate(self):
        return (None, None)

    def terminate(self):
        pass

    def wait(self):
        return 0


def gen_rd(rng, keys, p_key=0.5, exec_level=False):
    d = {}
    for k in keys:
        if rng.random() > p_key and not (exec_level and k == "cores" and rng.random() < 0.8):
            continue
        if k == "cores":
            d[k] = rng.choice([1, 1, 2, 2, 3, 4, 7])
        elif k == "threads_per_core":
            d[k] = rng.choice([1, 2, 2, 3, 4])
        elif k == "gpus_per_core":
            d[k] = rng.choice([0, 1, 2])
        elif k == "cwd":
            d[k] = rng.choice(CWDS)
        elif k == "openmpi_oversubscribe":
            d[k] = rng.random() < 0.5
        else:
            d[k] = list(rng.choice(EXTRA))
    return d


def norm_argv(argv):
    out = list(argv)
    for i, t in enumerate(out):
        if t == "--zmqport" and i + 1 < len(out) and re.fullmatch(r"\d+", out[i + 1]):
            out[i + 1] = "PORT"
    return out


def run_sequence(launcher, ex, pcs):
    """Real code on one executor-level dict and a sequence of per-call dicts. Returns per-call records."""
    from executorlib.interactive import shared as ish
    from executorlib.standalone.interactive import spawner as sp

    cls = sp.SrunSpawner if launcher == "srun" else sp.MpiExecSpawner
    ex_live = copy.deepcopy(ex)
    ex_live.setdefault("cores", 1)
    recs = []
    active = {}
    for pc in pcs:
        f = Future()
        f.cancel()
        PopenRecorder.calls = []
        rec = {}
        process, active = ish._submit_function_to_separate_process(
            task_dict={"fn": sum, "args": ([1, 2],), "kwargs": {}, "future": f, "resource_dict": pc},
            qtask=queue.Queue(), active_task_dict={}, spawner=cls, executor_kwargs=ex_live,
            max_cores=None, max_workers=None, hostname_localhost=True)
        rec["slots"] = active.get(f)
        rec["kw"] = {k: v for k, v in process._vh_kwargs.items() if k in KEYS}
        rec["kw_other"] = sorted(k for k in process._vh_kwargs if k not in KEYS)
        try:
            process.join()
            rec["thread_exc"] = None
        except Exception as e:  # noqa
            rec["thread_exc"] = type(e).__name__
        mine = [c for c in PopenRecorder.calls if c["thread"] == process.ident]
        if len(mine) == 1:
            rec["launch"] = {"argv": norm_argv(mine[0]["args"]), "cwd": mine[0]["cwd"]}
        elif rec["thread_exc"]:
            rec["launch"] = {"error": rec["thread_exc"]}
        else:
            rec["launch"] = {"error": "popen_calls=%d" % len(mine)}
        recs.append(rec)
    return recs, ex_live


def _fn_value(i):
    return i


def _fn_cwd(i):
    import os as _os

    return _os.path.realpath(_os.getcwd())


class _DummyProc:
    def poll(self):
        return 0


def gen_file_history(rng, dirs):
    """One interpreter history in file mode: 2-3 FileExecutors one after the other, each with its own executor-level dictionary,
    each given 2-4 calls; a call has no per-call dictionary at all (the shared default of submit()), an empty one, or some keys."""
    execs = []
    for _ in range(rng.choice([2, 2, 3])):
        ex = {}
        if rng.random() < 0.6:
            ex["cores"] = rng.choice([1, 2, 3])
        if rng.random() < 0.7:
            ex["cwd"] = rng.choice([None] + dirs)
        if rng.random() < 0.3:
            ex["threads_per_core"] = rng.choice([1, 2])
        if rng.random() < 0.2:
            ex["openmpi_oversubscribe"] = rng.random() < 0.5
        pcs = []
        for _ in range(rng.choice([2, 3, 4])):
            r = rng.random()
            if r < 0.45:
                pcs.append(None)              # submit(fn, i): the default dictionary of submit()
            elif r < 0.55:
                pcs.append({})
            else:
                pc = {}
                if rng.random() < 0.5:
                    pc["cores"] = rng.choice([1, 2, 4])
                if rng.random() < 0.6:
                    pc["cwd"] = rng.choice([None] + dirs)
                if rng.random() < 0.25:
                    pc["threads_per_core"] = rng.choice([1, 3])
                if rng.random() < 0.15:
                    pc["gpus_per_core"] = rng.choice([0, 1])
                pcs.append(pc)
        execs.append({"ex": ex, "pcs": pcs})
    return execs


def run_file_history(history, base, real=False):
    """The real FileExecutor on the history; execute_function records (and, with real=True, launches).  -> per executor records."""
    from executorlib.base.executor import ExecutorBase
    from executorlib.cache.executor import FileExecutor
    from executorlib.cache.subprocess_spawner import execute_in_subprocess

    out = []
    counter = [0]
    for k, e in enumerate(history):
        cache = os.path.join(base, "cache_%d" % k)
        calls = []

        def rec_fn(command, task_dependent_lst=[], file_name=None, resource_dict=None, config_directory=None, backend=None,
                   cache_directory=None, _calls=calls):
            _calls.append({"argv": list(command), "rd": copy.deepcopy(resource_dict), "file": file_name, "cache_directory": cache_directory})
            if real:
                return execute_in_subprocess(command=command, task_dependent_lst=task_dependent_lst, file_name=file_name,
                                             resource_dict=resource_dict, cache_directory=cache_directory)
            return _DummyProc()

        ex_live = copy.deepcopy(e["ex"])
        pcs_live = [copy.deepcopy(pc) for pc in e["pcs"]]
        exe = FileExecutor(cache_directory=cache, resource_dict=ex_live, execute_function=rec_fn)
        futs = []
        try:
            for pc in pcs_live:
                counter[0] += 1
                fn = _fn_cwd if real else _fn_value
                futs.append(exe.submit(fn, counter[0]) if pc is None else exe.submit(fn, counter[0], resource_dict=pc))
            values = None
            if real:
                values = []
                for f in futs:
                    try:
                        values.append(f.result(timeout=90))
                    except BaseException as ex_:  # noqa
                        values.append("%s: %s" % (type(ex_).__name__, ex_))
        finally:
            exe.shutdown(wait=True)
        out.append({"calls": calls, "ex_after": ex_live, "pcs_after": pcs_live, "cache": os.path.abspath(cache), "values": values,
                    "submit_default": copy.deepcopy(ExecutorBase.submit.__kwdefaults__.get("resource_dict"))})
    return out


def file_mode_part(ctx: Ctx, only=None):
    """File mode (execute_tasks_h5): the dictionary handed to execute_function for every task of every executor of a history
    = Res.fileEffective (theorems file_precedence, file_frame, file_launch_exact); nobody's dictionary is written."""
    import executorlib

    m = ctx.model
    py = sys.executable
    bdir = os.path.join(os.path.dirname(executorlib.__file__), "backend")
    serial, parallel = os.path.join(bdir, "cache_serial.py"), os.path.join(bdir, "cache_parallel.py")
    base = tempfile.mkdtemp(prefix="vh_c10f_")
    dirs = [os.path.join(base, "w%d" % i) for i in range(3)]
    for d in dirs:
        os.makedirs(d)
    n = 25 if ctx.tier == "quick" else 250
    diffs = []
    try:
        if only is not None:
            histories = [(only["history"], only.get("real", False))]
        else:
            # the three-executor witness: dict-less calls after an executor with another working directory
            histories = [([{"ex": {"cwd": dirs[0]}, "pcs": [None]}, {"ex": {"cwd": dirs[1]}, "pcs": [None, {}]},
                           {"ex": {"cores": 2}, "pcs": [None, {"cwd": dirs[2]}, None]}], True)]
            histories += [(gen_file_history(ctx.rng, dirs), i % 12 == 11) for i in range(n)]
        for hist, real in histories:
            if real:
                hist = [{"ex": {k: v for k, v in e["ex"].items() if k in ("cwd",)},
                         "pcs": [None if pc is None else {k: v for k, v in pc.items() if k in ("cwd",)} for pc in e["pcs"]]} for e in hist]
            recs = run_file_history(hist, tempfile.mkdtemp(prefix="h_", dir=base), real=real)
            ctx.case({"file_history": hist, "real": real}, nontrivial=any(pc is None for e in hist for pc in e["pcs"]))
            ctx.count("file.history_real" if real else "file.history_recorded")
            mos = m.ask_many([dict(op="res_file_dispatch", ex=e["ex"], pcs=[pc or {} for pc in e["pcs"]], python=py, serial=serial,
                                   parallel=parallel, file="FILE", cache_directory=r["cache"]) for e, r in zip(hist, recs)])
            for k, (e, r, mo) in enumerate(zip(hist, recs, mos)):
                problem = None
                if r["submit_default"] != {}:
                    problem = {"kind": "default_dictionary_of_submit_written", "impl": r["submit_default"], "model": {}}
                elif r["ex_after"] != mo["ex_after"]:
                    problem = {"kind": "executor_level_dict", "impl": r["ex_after"], "model": mo["ex_after"]}
                elif [pc or {} for pc in r["pcs_after"]] != mo["pcs_after"]:
                    problem = {"kind": "callers_dictionary_written", "impl": r["pcs_after"], "model": mo["pcs_after"]}
                elif len(r["calls"]) != len(mo["calls"]):
                    problem = {"kind": "number_of_launches", "impl": len(r["calls"]), "model": len(mo["calls"])}
                else:
                    for i, (c, mc) in enumerate(zip(r["calls"], mo["calls"])):
                        ctx.count("file.task")
                        for key in (e["pcs"][i] or {}):
                            ctx.count("file.percall." + key)
                        if e["pcs"][i] is None:
                            ctx.count("file.percall.<default dict>")
                        f = c["file"] or ""
                        argv = ["FILE" if t == f else t for t in c["argv"]]
                        file_ok = os.path.dirname(f) == r["cache"] and f.endswith(".h5in")
                        impl = {"rd": {kk: v for kk, v in (c["rd"] or {}).items() if kk in KEYS}, "argv": argv,
                                "cwd": (c["rd"] or {}).get("cwd", c["cache_directory"])}
                        extra_keys = sorted(kk for kk in (c["rd"] or {}) if kk not in KEYS)
                        if impl != mc or extra_keys or not file_ok:
                            problem = {"kind": "task_%d_of_executor_%d" % (i, k), "impl": impl, "model": mc, "other_keys": extra_keys, "file": f}
                            break
                        if real:
                            want = os.path.realpath(mc["cwd"] or os.getcwd())
                            if r["values"][i] != want:
                                problem = {"kind": "real_cwd_task_%d_of_executor_%d" % (i, k), "impl": r["values"][i], "model": want}
                                break
                if problem:
                    diffs.append({"history": hist, "real": real, "executor": k, **problem})
                    break
    finally:
        import shutil

        shutil.rmtree(base, ignore_errors=True)
    ctx.oblige("correspondence (file mode): resource_dict / command / cwd handed to execute_function for every task of every executor of a "
               "history = Res.fileEffective / fileLaunch; executor-level, per-call and default dictionaries unchanged", not diffs,
               f"{len(histories)} histories")
    for d in diffs[:1]:
        ctx.violation({"kind": "file_" + d["kind"].split("_of_")[0], "failing_input": True},
                      {"what": "file mode: the resources a task is started with differ from its own resource_dict over the executor-level one "
                               "(Res.fileEffective; theorems file_precedence, file_frame, file_launch_exact), or a dictionary of the caller / of "
                               "another call was written", "mode": "file", **d})
    return {"file_histories": len(histories), "file_differences": len(diffs)}


def body(ctx: Ctx):
    if ctx.replay_file:
        data = json.load(open(ctx.replay_file))
        if data.get("mode") == "file":
            return file_mode_part(ctx, only=data)
        cases = [data["case"]]
    else:
        cases = None
    from executorlib.interactive import shared as ish
    from executorlib.standalone.interactive import spawner as sp
    import executorlib

    m = ctx.model
    py = sys.executable
    serial = [py, os.path.join(os.path.dirname(executorlib.__file__), "backend", "interactive_serial.py"), "--zmqport", "PORT"]
    parallel = [py, os.path.join(os.path.dirname(executorlib.__file__), "backend", "interactive_parallel.py"), "--zmqport", "PORT"]
    n = 400 if ctx.tier == "quick" else 4000
    if cases is None:
        cases = [
            {"launcher": "mpiexec", "ex": {"cores": 3, "cwd": None}, "pcs": [{"cores": 2}, {}, {"cwd": "/a b"}, {}]},      # leak witness
            {"launcher": "srun", "ex": {"cores": 1, "threads_per_core": 2, "gpus_per_core": 0, "slurm_cmd_args": []},
             "pcs": [{"cores": 4, "gpus_per_core": 1, "slurm_cmd_args": ["--mem=4G"]}, {"threads_per_core": 1}, {}]},
            {"launcher": "mpiexec", "ex": {"cores": 1}, "pcs": [{"gpus_per_core": 1}, {}]},   # D20: key the local spawner rejects
        ]
        for i in range(n):
            launcher = ctx.rng.choice(["mpiexec", "srun"])
            keys = KEYS if launcher == "srun" else LOCAL_KEYS
            if i % 25 == 24:
                keys = KEYS  # malformed stream: keys the local spawner does not accept
            ex = gen_rd(ctx.rng, keys, 0.6, exec_level=True)
            pcs = [gen_rd(ctx.rng, keys, 0.35) for _ in range(ctx.rng.choice([2, 3, 4, 6]))]
            cases.append({"launcher": launcher, "ex": ex, "pcs": pcs})
    model_out = m.ask_many([dict(op="res_dispatch", ex=c["ex"], pcs=c["pcs"], launcher=c["launcher"], serial=serial, parallel=parallel)
                            for c in cases])
    orig_popen = sp.subprocess.Popen
    sp.subprocess.Popen = PopenRecorder
    from .common import OsProxy
    real_os = getattr(sp, "os", None)
    if real_os is not None:
        sp.os = OsProxy()           # fix 24eb13b: the spawner creates the working directory; recorded, not done
    orig_rt = ish.RaisingThread

    class RecThread(orig_rt):
        def __init__(self, *a, **kw):
            super().__init__(*a, **kw)
            self._vh_kwargs = dict(kw.get("kwargs") or {})

    ish.RaisingThread = RecThread
    diffs = []
    try:
        for c, mo in zip(cases, model_out):
            recs, ex_after = run_sequence(c["launcher"], c["ex"], c["pcs"])
            ctx.case(c, nontrivial=any(c["pcs"]))
            ctx.count("launcher." + c["launcher"])
            ex_expect = dict(c["ex"])
            ex_expect.setdefault("cores", 1)
            if ex_after != ex_expect:
                diffs.append({"kind": "executor_level_dict_changed", "case": c, "impl": ex_after, "model": ex_expect})
                continue
            for k, (r, mc, pc) in enumerate(zip(recs, mo["calls"], c["pcs"])):
                for key in pc:
                    ctx.count("percall." + key)
                if "error" in mc["launch"]:
                    ctx.count("launch.rejected_keys")
                impl = {"kw": r["kw"], "slots": r["slots"], "launch": r["launch"]}
                if impl != mc:
                    diffs.append({"kind": "call_%d_of_sequence" % k, "case": c, "impl": impl, "model": mc})
                    break
    finally:
        sp.subprocess.Popen = orig_popen
        if real_os is not None:
            sp.os = real_os
        ish.RaisingThread = orig_rt
    ctx.oblige("correspondence: keywords, slots and Popen(argv, cwd) of every call of every sequence = Res.dispatchAll / Res.launch; "
               "executor-level dictionary unchanged", not diffs, f"{len(cases)} sequences")
    for d in diffs[:1]:
        # property oracle: do the launch parameters differ from the call's own dictionary over the executor-level one?
        ctx.violation({"kind": d["kind"], "failing_input": True},
                      {"what": "worker keywords / slots / launch command of a call differ from Res.effective (theorems precedence, frame, "
                               "launch_*_exact): per-call resources overridden, leaked into another call, or dropped", "case": d["case"],
                       "impl": d["impl"], "model": d["model"]})
    # ---- block allocation rejects per-call dictionaries on every path
    rejects = []
    if not ctx.replay_file:
        for dd in (True, False):
            exe = executorlib.Executor(backend="local", block_allocation=True, max_workers=1, disable_dependencies=dd)
            try:
                for rd in ({"cores": 1}, {"cwd": "/tmp"}, {"threads_per_core": 2}):
                    try:
                        exe.submit(sum, [1, 2], resource_dict=dict(rd))
                        rejects.append({"disable_dependencies": dd, "resource_dict": rd, "raised": None})
                    except ValueError:
                        pass
                    ctx.case({"block_reject": rd, "disable_dependencies": dd})
                ok = exe.submit(sum, [1, 2]).result(timeout=60)
                if ok != 3:
                    rejects.append({"disable_dependencies": dd, "plain_call": ok})
            finally:
                exe.shutdown(wait=True)
        ctx.oblige("block allocation: submit with a non-empty per-call resource_dict raises ValueError (with and without the resolver)",
                   not rejects)
        if rejects:
            ctx.violation({"kind": "block_accepts_percall", "failing_input": True},
                          {"what": "a block-allocation executor accepted a per-call resource_dict (submitBlock, theorem block_rejects)", "cases": rejects})
        # ---- real launches: the call runs in its own working directory, others are not affected
        bad = []
        base = tempfile.mkdtemp(prefix="vh_c10_")
        try:
            dirs = [os.path.join(base, "d%d" % i) for i in range(3)]
            for d in dirs:
                os.makedirs(d)
            for dd in (True, False):
                exe = executorlib.Executor(backend="local", block_allocation=False, max_cores=2, disable_dependencies=dd,
                                           resource_dict={"cwd": dirs[0]})
                try:
                    plan = [dirs[1], None, dirs[2], None, dirs[1]]
                    futs = [exe.submit(os.getcwd, resource_dict=({"cwd": d} if d else {})) for d in plan]
                    got = [f.result(timeout=120) for f in futs]
                    want = [os.path.realpath(d or dirs[0]) for d in plan]
                    ctx.case({"real_cwd": plan, "disable_dependencies": dd})
                    if [os.path.realpath(g) for g in got] != want:
                        bad.append({"disable_dependencies": dd, "got": got, "want": want})
                finally:
                    exe.shutdown(wait=True)
        finally:
            import shutil

            shutil.rmtree(base, ignore_errors=True)
        ctx.oblige("real launches: os.getcwd() inside each call = its own cwd, else the executor-level cwd", not bad)
        if bad:
            ctx.violation({"kind": "real_cwd", "failing_input": True}, {"what": "working directory of a call differs from its effective cwd", "cases": bad})
    file_res = file_mode_part(ctx) if not ctx.replay_file else {}
    return {
        **file_res,
        "rule": "file mode: histories of 2-3 FileExecutors in one interpreter (executor-level cores / cwd / threads / oversubscription), 2-4 tasks "
                "each without per-call dictionary (the shared default of submit()), with an empty one or with own keys, execute_function recorded "
                "(every 12th history launched for real, os.getcwd() compared); interactive mode: "
                "sequences of 2-6 per-call dictionaries over one executor-level dictionary (keys cores, threads_per_core, gpus_per_core, cwd, "
                "openmpi_oversubscribe, slurm_cmd_args; local and srun spawners; every 25th sequence uses keys the local spawner rejects), run "
                "through the real _submit_function_to_separate_process -> execute_parallel_tasks -> Spawner -> Popen (recorded); plus block "
                "executors rejecting per-call dicts and real per-call launches with distinct working directories; non-trivial = some per-call key",
        "differences": len(diffs),
        "ast_hashes": ast_hashes(ANCHORS),
        "trusted_base_extra": ["subprocess.Popen replaced by a recorder inside spawner.py for the launch comparison; mpi4py stand-in package so that "
                               "find_spec('mpi4py') succeeds for cores > 1", "srun/mpiexec option grammar (Launcher.lean SPEC, as in C16)"],
    }


def main(argv=None):
    run_check("C10", body, argv)


if __name__ == "__main__":
    main()
