"""C18 — multi-core calls.  Lean: Props/C18*.lean + Proofs/ParProofs.lean (gather_rank_order,
all_fail_one_error, single_rank_value, one_reply_per_call, nothing_after_shutdown over Wire.pserve).
Tie (on the MPI stand-in: no MPI implementation is installed): the real interactive_parallel.py run
under `mpiexec -n N` and driven over a zmq PAIR socket with generated request sequences - transcript
compared with Wire.pserve; real executors (block and per-call) with cores = N; the real
cache_parallel.py on an input file - exactly one result file, output in rank order."""
from __future__ import annotations

import glob
import json
import os
import shutil
import subprocess
import sys
import tempfile

from .common import VERIF, Ctx, InfraError, ast_hashes, run_check

ANCHORS = {
    "executorlib/backend/interactive_parallel.py": ["main"],
    "executorlib/backend/cache_parallel.py": ["main"],
    "executorlib/cache/backend.py": ["backend_load_file", "backend_write_file"],
    "executorlib/interactive/shared.py": ["_get_backend_path", "execute_parallel_tasks"],
    "executorlib/standalone/interactive/spawner.py": ["generate_mpiexec_command", "MpiExecSpawner"],
}

SRC = '''
def f_rank(v, log=None):
    from mpi4py import MPI
    import os
    r, n = MPI.COMM_WORLD.Get_rank(), MPI.COMM_WORLD.Get_size()
    if log:
        fd = os.open(log, os.O_WRONLY | os.O_APPEND | os.O_CREAT); os.write(fd, ("%d %d %s\\n" % (r, n, v)).encode()); os.close(fd)
    return [r, v]
def f_raise(v):
    raise ValueError(v)
def f_ret_exc(v):
    from mpi4py import MPI
    r = MPI.COMM_WORLD.Get_rank()
    return KeyError(v, r) if (r + v) % 2 else [r, v]      # an exception OBJECT as return value on some ranks
def f_counter():
    import builtins
    n = getattr(builtins, "_vh_count", 0)
    builtins._vh_count = n + 1
    return n
def f_preset(k):
    return k
def mk_init(mem):
    def init():
        return dict(mem)
    return init
'''


def fresh():
    g = {"__name__": "dyn_c18"}
    exec(SRC, g)
    return g


def gen_seq(rng):
    n = rng.choice([1, 2, 3, 4, 6, 8])
    seq = []
    for i in range(n):
        k = rng.choice(["rank", "rank", "rank", "raise", "init", "preset", "other", "shutdown"])
        if k == "shutdown" and rng.random() < 0.6 and i < n - 1:
            k = "rank"
        if k == "rank":
            seq.append({"t": "rank", "v": 100 + i})
        elif k == "raise":
            seq.append({"t": "raise", "v": 200 + i})
        elif k == "init":
            seq.append({"t": "init", "mem": [["k", 300 + i]]})
        elif k == "counter":
            seq.append({"t": "counter"})
        elif k == "preset":
            seq.append({"t": "preset", "key": "k"})
        elif k == "other":
            seq.append({"t": "other"})
        else:
            seq.append({"t": "shutdown"})
    if not any(r["t"] == "shutdown" for r in seq):
        seq.append({"t": "shutdown"})
    return seq


def to_wire(req, g, log):
    t = req["t"]
    if t == "init":
        return {"init": True, "fn": g["mk_init"](dict(req["mem"])), "args": (), "kwargs": {}}
    if t == "rank":
        return {"fn": g["f_rank"], "args": (req["v"],), "kwargs": {"log": log}}
    if t == "raise":
        return {"fn": g["f_raise"], "args": (req["v"],), "kwargs": {}}
    if t == "counter":
        return {"fn": g["f_counter"], "args": (), "kwargs": {}}
    if t == "preset":
        return {"fn": g["f_preset"], "args": (), "kwargs": {}}
    if t == "shutdown":
        return {"shutdown": True, "wait": True}
    return {"foo": 1}


def drive(seq, n, env):
    import cloudpickle
    import zmq

    g = fresh()
    work = tempfile.mkdtemp(prefix="vh_c18_")
    log = os.path.join(work, "ranks.log")
    ctxz = zmq.Context()
    sock = ctxz.socket(zmq.PAIR)
    port = sock.bind_to_random_port("tcp://*")
    script = os.path.join(os.environ.get("VERIF_REPO", "/repo"), "executorlib", "backend", "interactive_parallel.py")
    cmd = [sys.executable, script, "--host", "localhost", "--zmqport", str(port)]
    if n > 1:
        cmd = ["mpiexec", "-n", str(n)] + cmd
    proc = subprocess.Popen(cmd, stdin=subprocess.DEVNULL, stdout=subprocess.DEVNULL, stderr=open(os.path.join(work, "err"), "w"),
                            env=env, start_new_session=True)
    transcript, dead = [], False
    try:
        for i, req in enumerate(seq):
            if dead:
                break
            sock.send(cloudpickle.dumps(to_wire(req, g, log)))
            bearing = req["t"] in ("rank", "raise", "counter", "preset", "shutdown")
            tmo = 20000 if bearing else 40
            while sock.poll(tmo):
                d = cloudpickle.loads(sock.recv())
                if "result" in d:
                    transcript.append([i, {"result": d["result"]}])
                else:
                    e = d.get("error")
                    transcript.append([i, {"error": e.args[0] if isinstance(e, ValueError) and e.args else type(e).__name__}])
                tmo = 40
            if req["t"] == "shutdown":
                dead = True
        try:
            rc = proc.wait(20)
        except subprocess.TimeoutExpired:
            rc = None
        ranks = open(log).read().splitlines() if os.path.exists(log) else []
        return transcript, rc, ranks
    finally:
        try:
            os.killpg(proc.pid, 9)
        except Exception:  # noqa
            pass
        sock.close(linger=0)
        ctxz.term()
        shutil.rmtree(work, ignore_errors=True)


def expected(model_replies, seq, n):
    idx = []
    for i, r in enumerate(seq):
        if r["t"] in ("rank", "raise", "counter", "preset", "shutdown"):
            idx.append(i)
        if r["t"] == "shutdown":
            break
    if len(idx) != len(model_replies):
        raise InfraError("model reply count contradicts theorem one_reply_per_call")
    out = []
    for i, rep in zip(idx, model_replies):
        if "ack" in rep:
            out.append([i, {"result": True}])
        elif "error" in rep:
            out.append([i, {"error": rep["error"]}])
        else:
            out.append([i, {"result": rep["result"]}])
    return out


def body(ctx: Ctx):
    m = ctx.model
    env = dict(os.environ)
    if shutil.which("mpiexec", path=env.get("PATH")) is None or "standins/bin" not in shutil.which("mpiexec", path=env.get("PATH")):
        raise InfraError("mpiexec stand-in not on PATH")
    n_seq = 30 if ctx.tier == "quick" else 300
    plan = []
    if ctx.replay_file:
        d = json.load(open(ctx.replay_file))
        plan = [(d["seq"], d["n"])]
    else:
        plan = [([{"t": "rank", "v": 1}, {"t": "init", "mem": [["k", 5]]}, {"t": "preset", "key": "k"}, {"t": "raise", "v": 7},
                  {"t": "rank", "v": 2}, {"t": "shutdown"}, {"t": "rank", "v": 3}], 3)]
        plan += [(gen_seq(ctx.rng), ctx.rng.choice([1, 2, 2, 3, 3, 4, 5])) for _ in range(n_seq)]

    def mreq(seq, n):
        reqs = []
        for r in seq:
            if r["t"] == "raise":
                reqs.append({"t": "raise", "v": r["v"]})
            elif r["t"] == "rank":
                reqs.append({"t": "rank", "v": r["v"]})
            else:
                reqs.append(r)
        return dict(op="wire_pserve", reqs=reqs, n=n)

    model_out = m.ask_many([mreq(s, n) for s, n in plan])
    from concurrent.futures import ThreadPoolExecutor

    with ThreadPoolExecutor(max_workers=6) as pool:
        runs = list(pool.map(lambda x: drive(x[0], x[1], env), plan))
    diffs = []
    for (seq, n), mo, (transcript, rc, ranks) in zip(plan, model_out, runs):
        exp = expected(mo, seq, n)
        # preset call without preset fails to bind on every rank: canonical error
        tr = [[i, ({"error": "TypeError"} if isinstance(r.get("error"), str) and "missing" in str(r.get("error")) else r)] for i, r in transcript]
        ctx.case({"n": n, "seq": seq}, nontrivial=n >= 2)
        ctx.count("ranks.%d" % n)
        for r in seq:
            ctx.count("req." + r["t"])
        if tr != exp:
            diffs.append({"kind": "transcript", "n": n, "seq": seq, "impl": tr, "model": exp})
            continue
        # one invocation per rank: the rank log has every rank once per executed f_rank call
        served = [seq[i] for i, r in exp if seq[i]["t"] == "rank"]
        want = sorted("%d %d %s" % (rk, n, r["v"]) for r in served for rk in range(n))
        if sorted(ranks) != want:
            diffs.append({"kind": "invocations_per_rank", "n": n, "seq": seq, "impl": sorted(ranks), "model": want})
        elif rc != 0:
            diffs.append({"kind": "worker_exit", "n": n, "seq": seq, "impl": rc, "model": 0})
    ctx.oblige("correspondence: reply transcript of interactive_parallel.py under mpiexec -n N = Wire.pserve N; every rank invoked once per call; "
               "all ranks exit after the acknowledgement", not diffs, f"{len(plan)} sequences")
    for d in diffs[:1]:
        ctx.violation({"kind": d["kind"], "failing_input": True},
                      {"what": "the n-rank worker's replies differ from Wire.pserve (theorems gather_rank_order / one_reply_per_call)", **d})
    bad = []
    if not ctx.replay_file:
        # ---- real executors with cores = n
        import executorlib

        g = fresh()
        import contextlib

        @contextlib.contextmanager
        def machine(narrow):
            """narrow: this process (and the workers it starts) may use ONE cpu, as under taskset / in a small cgroup — a call assigned
            n cores still runs on n ranks"""
            old = os.sched_getaffinity(0)
            try:
                if narrow:
                    os.sched_setaffinity(0, {min(old)})
                yield
            finally:
                os.sched_setaffinity(0, old)

        plan = [(kw, label, n, False) for kw, label in ((dict(block_allocation=True, max_workers=1), "block"), (dict(block_allocation=False, max_cores=6), "percall"))
                for n in ([2, 3] if ctx.tier == "quick" else [2, 3, 4, 5])]
        plan += [(dict(block_allocation=True, max_workers=1), "block", 3, True), (dict(block_allocation=False, max_cores=6), "percall", 2, True)]
        import concurrent.futures as _cf
        import threading as _th

        def bounded_shutdown(exe):
            t = _th.Thread(target=lambda: exe.shutdown(wait=True), daemon=True)
            t.start()
            t.join(30)
            if t.is_alive():
                from .common import kill_descendants

                kill_descendants("interactive_")

        def value_of(f, tmo=60):
            try:
                return f.result(timeout=tmo)
            except _cf.TimeoutError:
                return "<future still pending after %d s>" % tmo
            except BaseException as e:  # noqa
                return "<raised %s>" % type(e).__name__

        for kw, label, n, narrow in plan:
            with machine(narrow):
                rd = {"cores": n}
                exe = executorlib.Executor(backend="local", resource_dict=rd if label == "block" else None, **kw)
                try:
                    futs = [exe.submit(g["f_rank"], 10 * n + j, **({} if label == "block" else {"resource_dict": {"cores": n}})) for j in range(3)]
                    got = [value_of(f, 60 if k == 0 else 5) for k, f in enumerate(futs)]
                    want = [[[r, 10 * n + j] for r in range(n)] for j in range(3)]
                    ctx.case({"executor": label, "cores": n, "one_cpu_machine": narrow}, nontrivial=True)
                    ctx.count("executor." + label + (".one_cpu_machine" if narrow else ""))
                    if got != want:
                        bad.append({"executor": label, "cores": n, "one_cpu_machine": narrow, "got": got, "want": want})
                finally:
                    bounded_shutdown(exe)
        if bad:
            # multi-core calls already fail on plain values: report that instead of waiting through the remaining executor parts
            ctx.oblige("real executors (block, per-call) with cores = n: future = [f(rank 0), ..., f(rank n-1)]", False)
            ctx.violation({"kind": "multicore_result", "failing_input": True},
                          {"what": "a multi-core call's result is not the rank-ordered list of the n return values (or never arrives)", "cases": bad[:3]})
            return {"rule": "stopped after the first executor part", "differences": len(diffs), "ast_hashes": ast_hashes(ANCHORS)}

        # ---- exception objects as RETURN values (errors-as-values): delivered in the rank-ordered list like any other value
        def cx(x):
            return ["<exc>", type(x).__name__, list(x.args)] if isinstance(x, BaseException) else x

        for kw, label in ((dict(block_allocation=True, max_workers=1, resource_dict={"cores": 3}), "block"), (dict(block_allocation=False, max_cores=3), "percall")):
            exe = executorlib.Executor(backend="local", **kw)
            try:
                for v in (4, 7):
                    f = exe.submit(g["f_ret_exc"], v, **({} if label == "block" else {"resource_dict": {"cores": 3}}))
                    want = [["<exc>", "KeyError", [v, r]] if (r + v) % 2 else [r, v] for r in range(3)]
                    try:
                        got = [cx(x) for x in f.result(timeout=60)]
                    except BaseException as e:  # noqa
                        got = ["RAISED", type(e).__name__, [str(a) for a in e.args]]
                    ctx.case({"executor": label, "returns_exception_object": v}, nontrivial=True)
                    ctx.count("executor.returned_exception_objects")
                    if got != want:
                        bad.append({"executor": label, "cores": 3, "returns_exception_object": v, "got": got, "want": want})
            finally:
                try:
                    bounded_shutdown(exe)
                except BaseException:  # noqa
                    pass
        # ---- a per-call request of c ranks on an executor whose default is D ranks (c < D, c > D, unset): the call runs on
        # the ranks it asked for
        for D, cs in ((3, [2, None, 4]), (2, [3, None])):
            exe = executorlib.Executor(backend="local", block_allocation=False, max_cores=6, resource_dict={"cores": D})
            try:
                futs = [(c, exe.submit(g["f_rank"], 100 * D + (c or 0), **({"resource_dict": {"cores": c}} if c else {}))) for c in cs]
                for c, f in futs:
                    n = c or D
                    got = value_of(f, 60)
                    want = [[r, 100 * D + (c or 0)] for r in range(n)]
                    ctx.case({"executor": "percall", "default_cores": D, "call_cores": c}, nontrivial=True)
                    ctx.count("executor.percall_vs_default")
                    if got != want:
                        bad.append({"executor": "percall", "default_cores": D, "call_cores": c, "got": got, "want": want})
            finally:
                bounded_shutdown(exe)
        # ---- a multi-core call that has to WAIT in the dependency resolver (one of its arguments is a future still running at
        # submit): it keeps its per-call cores on the way through the wait list
        for n in (2, 3):
            exe = executorlib.Executor(backend="local", block_allocation=False, max_cores=4)
            try:
                prod = exe.submit(lambda: (__import__("time").sleep(0.8), 41)[1])
                f = exe.submit(g["f_rank"], prod, resource_dict={"cores": n})
                got = value_of(f, 60)
                want = [[r, 41] for r in range(n)]
                ctx.case({"executor": "percall", "cores": n, "argument": "future pending at submit"}, nontrivial=True)
                ctx.count("executor.percall_cores_through_wait_list")
                if got != want:
                    bad.append({"executor": "percall behind the resolver", "call_cores": n, "argument": "a future still running at submit", "got": got, "want": want})
            finally:
                bounded_shutdown(exe)
        # ---- file mode: cache_parallel.py writes exactly one result file, output in rank order
        from executorlib.standalone.hdf import dump, get_output

        script = os.path.join(os.environ.get("VERIF_REPO", "/repo"), "executorlib", "backend", "cache_parallel.py")
        for n in ([1, 2, 3] if ctx.tier == "quick" else [1, 2, 3, 4, 5]):
            work = tempfile.mkdtemp(prefix="vh_c18f_")
            try:
                fin = os.path.join(work, "k%d.h5in" % n)
                dump(file_name=fin, data_dict={"fn": g["f_rank"], "args": [7 + n], "kwargs": {}})
                cmd = ([sys.executable, script, fin] if n == 1 else ["mpiexec", "-n", str(n), sys.executable, script, fin])
                r = subprocess.run(cmd, env=env, stdin=subprocess.DEVNULL, capture_output=True, timeout=120)
                outs = sorted(os.path.basename(p) for p in glob.glob(os.path.join(work, "*")))
                ok, val = (get_output(os.path.join(work, "k%d.h5out" % n)) if os.path.exists(os.path.join(work, "k%d.h5out" % n)) else (False, None))
                want = [0, 7 + n] if n == 1 else [[rk, 7 + n] for rk in range(n)]
                ctx.case({"file_mode_ranks": n}, nontrivial=n >= 2)
                ctx.count("file.ranks.%d" % n)
                if r.returncode != 0 or outs != ["k%d.h5out" % n] or not ok or val != want:
                    bad.append({"file_mode_ranks": n, "rc": r.returncode, "files": outs, "value": val, "want": want, "stderr": r.stderr.decode()[-300:]})
            finally:
                shutil.rmtree(work, ignore_errors=True)
        # ---- file mode through the real FileExecutor (subprocess back end): several executors with different core counts
        # in one interpreter, calls submitted without a per-call resource_dict
        from executorlib.cache.executor import FileExecutor
        from executorlib.cache.subprocess_spawner import execute_in_subprocess

        work = tempfile.mkdtemp(prefix="vh_c18e_")
        try:
            for k, n in enumerate([2, 3, 2] if ctx.tier == "quick" else [2, 3, 2, 4, 1, 3]):
                cdir = os.path.join(work, "c%d" % k)
                exe = FileExecutor(cache_directory=cdir, resource_dict={"cores": n}, execute_function=execute_in_subprocess)
                try:
                    got = exe.submit(g["f_rank"], 50 + k).result(timeout=120)
                    want = [[r, 50 + k] for r in range(n)] if n > 1 else [0, 50 + k]
                    outs = sorted(f for f in os.listdir(cdir) if f.endswith(".h5out"))
                    ctx.case({"file_executor_cores": n}, nontrivial=True)
                    ctx.count("file_executor.cores.%d" % n)
                    if got != want or len(outs) != 1:
                        bad.append({"file_executor_cores": n, "got": got, "want": want, "result_files": outs})
                finally:
                    bounded_shutdown(exe)
        finally:
            shutil.rmtree(work, ignore_errors=True)
        ctx.oblige("real executors (block, per-call) with cores = n: future = [f(rank 0), ..., f(rank n-1)]; cache_parallel.py: exactly one "
                   "result file holding the rank-ordered list", not bad)
        if bad:
            ctx.violation({"kind": "multicore_result", "failing_input": True},
                          {"what": "a multi-core call's result is not the rank-ordered list of the n return values / not exactly one result file", "cases": bad[:3]})
    return {
        "rule": "request sequences of length 1-9 over {rank-dependent call, call raising on all ranks, init, counter, preset call, unknown request, "
                "shutdown} on the real interactive_parallel.py with n = 1..5 ranks under the mpiexec stand-in; real executors with cores 2-5; "
                "cache_parallel.py with 1-5 ranks; non-trivial = n >= 2",
        "differences": len(diffs),
        "traces_validated_against_impl": len(plan),
        "ast_hashes": ast_hashes(ANCHORS),
        "trusted_base_extra": ["MPI stand-in (mpi4py.MPI over a directory hub, mpiexec forking n local processes): bcast / rank-ordered gather / "
                               "Barrier semantics are assumed, not exercised on a real MPI", "zmq PAIR as FIFO; h5py stand-in for the file mode"],
    }


def main(argv=None):
    run_check("C18", body, argv)


if __name__ == "__main__":
    main()
