"""Scenario runner for engine B.  Run as  python -m vh.runner <scenario.json> <out.json>  in its
own process (group).  Installs the tracing shim (no source hooks), builds the executor described
by the scenario from /repo's executorlib, executes the script, and writes the exactly linearised
event trace plus observations.

Exit codes: 0 finished, 3 watchdog fired (hang suspected; trace so far is still written).
"""
from __future__ import annotations

import json
import os
import queue as _queue_mod
import sys
import threading
import time
import traceback

LOCK = threading.RLock()
EVENTS = []
T0 = time.monotonic()
_tls = threading.local()
_PERTURB = {"seed": 0, "probs": {}}
_thread_roles = {}
_counters = {"worker": 0, "future": 0, "queue": 0}


def role():
    th = threading.current_thread()
    return _thread_roles.get(th.ident, "main" if th is threading.main_thread() or getattr(th, "_vh_main", False) else th.name)


def log(op, **kw):
    """Must be called with LOCK held."""
    kw["op"] = op
    kw["th"] = role()
    kw["n"] = len(EVENTS)
    EVENTS.append(kw)


def perturb(point):
    """Seeded schedule perturbation at every traced operation (outside LOCK)."""
    r = role()
    p = _PERTURB["probs"].get(r.split(":")[0], 0.0)
    if p <= 0:
        return
    rng = getattr(_tls, "rng", None)
    if rng is None:
        import random

        rng = _tls.rng = random.Random(f"{_PERTURB['seed']}:{r}")
    if rng.random() < p:
        time.sleep(rng.choice([0.0005, 0.001, 0.002, 0.005, 0.01]))


# --------------------------------------------------------------------------------------------
# queue.Queue


class TQ(_queue_mod.Queue):
    def __init__(self, maxsize=0):
        super().__init__(maxsize)
        f = sys._getframe(1)
        owner = f.f_locals.get("self")
        with LOCK:
            self._vh_id = _counters["queue"]
            _counters["queue"] += 1
            self._vh_made_by = (type(owner).__name__ if owner is not None else f.f_code.co_name)
            log("q_new", q=self._vh_id, by=self._vh_made_by)

    @staticmethod
    def _kind(item):
        if isinstance(item, dict) and item.get("shutdown"):
            return {"kind": "stop", "wait": bool(item.get("wait"))}
        if isinstance(item, dict) and "future" in item:
            return {"kind": "task", "i": getattr(item["future"], "_vh_id", None)}
        return {"kind": "other"}

    def put(self, item, block=True, timeout=None):
        perturb("put")
        with LOCK:
            super().put(item, block, timeout)
            log("put", q=self._vh_id, **self._kind(item))

    def get(self, block=True, timeout=None):
        perturb("get")
        if not block:
            with LOCK:
                try:
                    item = super().get(False)
                except _queue_mod.Empty:
                    log("get_empty", q=self._vh_id)
                    raise
                log("get", q=self._vh_id, nowait=True, **self._kind(item))
                return item
        while True:
            with LOCK:
                try:
                    item = super().get(False)
                    log("get", q=self._vh_id, nowait=False, **self._kind(item))
                    return item
                except _queue_mod.Empty:
                    pass
            time.sleep(0.0005)

    def get_nowait(self):
        return self.get(block=False)

    def task_done(self):
        perturb("task_done")
        with LOCK:
            try:
                super().task_done()
            except ValueError:
                log("task_done_error", q=self._vh_id)
                raise
            log("task_done", q=self._vh_id)

    def join(self):
        perturb("join")
        while True:
            with LOCK:
                if self.unfinished_tasks == 0:
                    log("q_join", q=self._vh_id)
                    return
            time.sleep(0.0005)

    def empty(self):
        with LOCK:
            r = super().empty()
            log("q_empty", q=self._vh_id, r=r)
            return r

    def qsize(self):
        with LOCK:
            r = super().qsize()
            log("q_size", q=self._vh_id, r=r)
            return r


# --------------------------------------------------------------------------------------------
# Future

import concurrent.futures as _cf  # noqa: E402
import concurrent.futures._base as _cfb  # noqa: E402

_BaseFuture = _cfb.Future


class TF(_BaseFuture):
    def __init__(self):
        super().__init__()
        with LOCK:
            self._vh_id = getattr(_tls, "attempt", None)
            self._vh_serial = _counters["future"]
            _counters["future"] += 1
            log("f_new", i=self._vh_id, serial=self._vh_serial)

    def cancel(self):
        perturb("cancel")
        with LOCK:
            r = super().cancel()
            log("cancel", i=self._vh_id, r=r)
            return r

    def cancelled(self):
        with LOCK:
            r = super().cancelled()
            log("cancelled", i=self._vh_id, r=r)
            return r

    def running(self):
        with LOCK:
            r = super().running()
            log("running", i=self._vh_id, r=r)
            return r

    def done(self):
        if role().startswith("resolver"):
            perturb("done")          # stretches the resolver's pass over its wait list (completions may land inside a pass)
        with LOCK:
            r = super().done()
            if r or not role().startswith("disp"):
                log("done", i=self._vh_id, r=r)
        if not r and role().startswith("disp"):
            time.sleep(0.0003)  # busy-wait loop of the dispatcher: unlogged stutter
        return r

    def set_running_or_notify_cancel(self):
        perturb("srn")
        with LOCK:
            try:
                r = super().set_running_or_notify_cancel()
            except Exception as e:  # noqa
                log("srn_error", i=self._vh_id, exc=type(e).__name__)
                raise
            log("srn", i=self._vh_id, r=r)
            return r

    def set_result(self, result):
        perturb("set_result")
        with LOCK:
            try:
                super().set_result(result)
            except Exception as e:  # noqa
                log("set_result_error", i=self._vh_id, exc=type(e).__name__)
                raise
            log("set_result", i=self._vh_id)

    def set_exception(self, exception):
        perturb("set_exception")
        with LOCK:
            try:
                super().set_exception(exception)
            except Exception as e:  # noqa
                log("set_exception_error", i=self._vh_id, exc=type(e).__name__)
                raise
            log("set_exception", i=self._vh_id, exc=type(exception).__name__)

    def result(self, timeout=None):
        # executorlib calls result() only on futures it has seen done; the scenario script uses
        # wait_done() below.  Poll so that nothing blocks while holding LOCK.
        deadline = None if timeout is None else time.monotonic() + timeout
        while True:
            with LOCK:
                if _BaseFuture.done(self):
                    try:
                        v = super().result(0)
                    except BaseException as e:  # noqa
                        log("result", i=self._vh_id, exc=type(e).__name__)
                        raise
                    log("result", i=self._vh_id, exc=None)
                    return v
            if deadline is not None and time.monotonic() > deadline:
                raise _cf.TimeoutError()
            time.sleep(0.0005)

    def exception(self, timeout=None):
        try:
            self.result(timeout)
        except _cf.CancelledError:
            raise
        except _cf.TimeoutError:
            raise
        except BaseException as e:  # noqa
            return e
        return None


def install():
    _queue_mod.Queue = TQ
    _cf.Future = TF
    _cfb.Future = TF
    import executorlib  # noqa: F401  (imports happen with the patched names)
    from executorlib.standalone import thread as th_mod
    from executorlib.standalone.interactive import communication as comm
    from executorlib.standalone.interactive import spawner as sp

    RT = th_mod.RaisingThread
    orig_init, orig_run, orig_join, orig_start = RT.__init__, RT.run, RT.join, RT.start

    def rt_init(self, *a, **kw):
        orig_init(self, *a, **kw)
        tgt = getattr(self, "_target", None)
        name = getattr(tgt, "__name__", "?")
        with LOCK:
            if name == "execute_parallel_tasks":
                self._vh_role = f"worker:{_counters['worker']}"
                _counters["worker"] += 1
            elif name == "execute_separate_tasks":
                self._vh_role = "disp"
            elif name == "execute_tasks_with_dependencies":
                self._vh_role = "resolver"
            elif name == "execute_tasks_h5":
                self._vh_role = "fileloop"
            else:
                self._vh_role = "thread:" + name
            log("thread_new", t=self._vh_role)

    def rt_start(self):
        with LOCK:
            log("thread_spawn", t=self._vh_role)
        orig_start(self)

    def rt_run(self):
        _thread_roles[threading.get_ident()] = self._vh_role
        with LOCK:
            log("thread_start", t=self._vh_role)
        try:
            orig_run(self)
        finally:
            with LOCK:
                e = self._exception
                log("thread_end", t=self._vh_role, exc=(type(e).__name__ if e else None), msg=(repr(e)[:200] if e else None))

    def rt_join(self, timeout=None):
        perturb("thread_join")
        deadline = None if timeout is None else time.monotonic() + timeout
        while True:
            with LOCK:
                if not self.is_alive() and self.ident is not None:
                    e = self._exception
                    log("thread_join", t=self._vh_role, exc=(type(e).__name__ if e else None))
                    break
            if deadline is not None and time.monotonic() > deadline:
                return
            time.sleep(0.0005)
        if self._exception:
            raise self._exception

    RT.__init__, RT.start, RT.run, RT.join = rt_init, rt_start, rt_run, rt_join

    SI = comm.SocketInterface
    o_send, o_recv, o_shut = SI.send_dict, SI.receive_dict, SI.shutdown

    def si_send(self, input_dict):
        perturb("send")
        kind = "shutdown" if input_dict.get("shutdown") else ("init" if "init" in input_dict else "task")
        with LOCK:
            log("send", kind=kind)
            return o_send(self, input_dict=input_dict)

    def si_recv(self):
        perturb("recv")
        while not self._socket.poll(1):
            pass
        with LOCK:
            try:
                r = o_recv(self)
            except BaseException as e:  # noqa
                log("recv", ok=False, exc=type(e).__name__)
                raise
            log("recv", ok=True)
            return r

    def si_shutdown(self, wait=True):
        if self._socket is None and self._context is None:
            return o_shut(self, wait=wait)  # repeated call from __del__: nothing happens
        with LOCK:
            log("iface_shutdown_begin", wait=wait)
        try:
            return o_shut(self, wait=wait)
        finally:
            with LOCK:
                log("iface_shutdown_end", wait=wait)

    SI.send_dict, SI.receive_dict, SI.shutdown = si_send, si_recv, si_shutdown

    SS = sp.SubprocessSpawner
    o_boot, o_sshut, o_poll = SS.bootup, SS.shutdown, SS.poll

    def ss_boot(self, command_lst):
        perturb("bootup")
        with LOCK:
            o_boot(self, command_lst=command_lst)
            argv = list(self._process.args) if self._process is not None else None
            log("proc_boot", pid=(self._process.pid if self._process else None), argv=argv, cwd=self._cwd)
            self._vh_pid = self._process.pid if self._process else None

    def ss_shutdown(self, wait=True):
        pid = getattr(self, "_vh_pid", None)
        o_sshut(self, wait=wait)
        with LOCK:
            log("proc_shutdown", pid=pid, wait=wait)

    def ss_poll(self):
        r = o_poll(self)
        with LOCK:
            log("proc_poll", r=r, pid=getattr(self, "_vh_pid", None))
        return r

    SS.bootup, SS.shutdown, SS.poll = ss_boot, ss_shutdown, ss_poll


# --------------------------------------------------------------------------------------------
# function bodies (pickled by value: this module is __main__)


def call_body(*args, _vh_spec=None, **kwargs):
    """Generic submitted function.  _vh_spec: {id, base, fail, gate, log, sleep}; passed by keyword so that the positional
    arguments of two task dictionaries are what a comparison of them looks at first."""
    import builtins

    spec = _vh_spec
    import os as _os
    import time as _time

    def flat(x):
        if isinstance(x, (list, tuple)):
            return sum(flat(y) for y in x)
        if isinstance(x, dict):
            return sum(flat(y) for y in x.values())
        if hasattr(x, "tolist") and hasattr(x, "sum"):
            return int(x.sum())          # numpy array
        return x if isinstance(x, int) else 0

    n = getattr(builtins, "_vh_ncalls", 0)
    builtins._vh_ncalls = n + 1

    def emit(what):
        fd = _os.open(spec["log"], _os.O_WRONLY | _os.O_APPEND | _os.O_CREAT)
        try:
            import sys as _sys
            mod = _sys.modules.get("executorlib")
            _os.write(fd, f"{what} {spec['id']} {_os.getpid()} {n} {_time.monotonic():.6f} {_os.getcwd().replace(' ', '_')} {getattr(mod, '__file__', '?')}\n".encode())
        finally:
            _os.close(fd)

    emit("enter")
    if spec.get("gate"):
        t0 = _time.monotonic()
        while not _os.path.exists(spec["gate"]) and _time.monotonic() - t0 < 60:
            _time.sleep(0.002)
    if spec.get("sleep"):
        _time.sleep(spec["sleep"])
    try:
        if spec.get("fail"):
            kind = spec["fail"]
            if kind == "user":
                class UserError(Exception):
                    pass
                raise UserError("boom", spec["id"])
            if kind == "base":
                class StopWork(BaseException):      # not an Exception: like SystemExit / KeyboardInterrupt raised by the function
                    pass
                raise StopWork("boom", spec["id"])
            if kind == "stop":
                raise StopIteration("boom", spec["id"])      # an exception with a special role in generators / comprehensions
            if kind == "json":
                import json as _json
                _json.loads("{")
            raise ValueError("boom", spec["id"])
        return spec["base"] + flat(args) + flat(kwargs)
    finally:
        emit("exit")


def where():
    import executorlib

    return executorlib.__file__


# --------------------------------------------------------------------------------------------
# scenario execution


def build_args(call, futs):
    """call['args']: list of arg descriptors: {"v": int} | {"f": j} | {"l": [desc...]};
    call['kwargs']: {name: desc}."""

    def mk(d):
        if "v" in d:
            return d["v"]
        if "a" in d:
            import numpy as _np

            return _np.array(d["a"])         # == on two of these raises when used as a truth value
        if "f" in d:
            return futs[d["f"]]
        if "l" in d:
            return [mk(x) for x in d["l"]]
        if "t" in d:
            return tuple(mk(x) for x in d["t"])
        raise ValueError(d)

    return [mk(d) for d in call.get("args", [])], {k: mk(d) for k, d in call.get("kwargs", {}).items()}


def proc_scan():
    from vh.common import descendants

    return [(p, c, s) for p, c, s in descendants() if "/backend/" in c and "executorlib" in c]


def main():
    scen = json.load(open(sys.argv[1]))
    out_path = sys.argv[2]
    _PERTURB["seed"] = scen.get("seed", 0)
    _PERTURB["probs"] = scen.get("perturb", {})
    threading.current_thread()._vh_main = True
    install()
    import executorlib

    obs = {"pin_parent": executorlib.__file__, "results": {}, "cmds": [], "hang": False}
    work = scen["workdir"]
    fnlog = os.path.join(work, "fn.log")
    open(fnlog, "a").close()
    done_flag = threading.Event()

    def dump(extra=None):
        with LOCK:
            ev = list(EVENTS)
        try:
            fn_lines = open(fnlog).read().splitlines()
        except Exception:  # noqa
            fn_lines = []
        payload = {"events": ev, "obs": obs, "fnlog": fn_lines}
        if extra:
            payload.update(extra)
        tmp = out_path + ".tmp"
        with open(tmp, "w") as fh:
            json.dump(payload, fh, default=str)
        os.replace(tmp, out_path)

    progress = {"t": time.monotonic()}

    def watchdog():
        # a hang = one script command (or the final settle phase) not returning within the time limit
        while not done_flag.wait(0.2):
            if time.monotonic() - progress["t"] <= scen.get("timeout", 25):
                continue
            obs["hang"] = True
            stacks = {}
            for tid, fr in sys._current_frames().items():
                stacks[str(_thread_roles.get(tid, tid))] = "".join(traceback.format_stack(fr)[-6:])
            obs["stacks"] = stacks
            obs["procs_at_hang"] = proc_scan()
            dump()
            from vh.common import kill_descendants

            kill_descendants()
            os._exit(3)

    threading.Thread(target=watchdog, daemon=True).start()

    kw = dict(scen["executor"])
    if isinstance(kw.get("cache_directory"), str) and kw["cache_directory"].startswith("@WORK"):
        kw["cache_directory"] = os.path.join(work, kw["cache_directory"][6:] or "cache")
    exe = executorlib.Executor(**kw)
    futs = {}
    calls = scen["calls"]
    attempt = 0
    BaseDone = _BaseFuture.done

    for cmd in scen["script"]:
        c = cmd["c"]
        rec = {"c": c}
        try:
            if c == "submit":
                i = attempt
                attempt += 1
                call = calls[i]
                spec = {"id": i, "base": call.get("base", 0), "fail": call.get("fail"), "log": fnlog,
                        "gate": (os.path.join(work, "gate_%s" % call["gate"]) if call.get("gate") is not None else None),
                        "sleep": call.get("sleep")}
                a, k = build_args(call, futs)
                _tls.attempt = i
                try:
                    if call.get("resource_dict") is not None:
                        futs[i] = exe.submit(call_body, *a, resource_dict=dict(call["resource_dict"]), _vh_spec=spec, **k)
                    else:
                        futs[i] = exe.submit(call_body, *a, _vh_spec=spec, **k)
                    rec["ok"] = True
                except Exception as e:  # noqa
                    futs[i] = None
                    rec["ok"] = False
                    rec["exc"] = type(e).__name__
                    with LOCK:
                        log("submit_raised", i=i, exc=type(e).__name__)
                finally:
                    _tls.attempt = None
            elif c == "cancel":
                f = futs.get(cmd["i"])
                rec["r"] = f.cancel() if f is not None else None
                rec["skipped"] = f is None
            elif c == "await":
                f = futs.get(cmd["i"])
                rec["skipped"] = f is None
                if f is not None:
                    t0 = time.monotonic()
                    while True:
                        with LOCK:
                            if BaseDone(f):
                                log("await_done", i=cmd["i"])
                                break
                        if time.monotonic() - t0 > scen.get("await_timeout", 0.35 * scen.get("timeout", 25)):
                            # the awaited future is not finishing (lost_future oracle judges that): go on with the script
                            rec["gave_up"] = True
                            rec["i"] = cmd["i"]
                            # which of its inputs were finished, and for how long the last one has been (starvation probe)
                            deps = [j for j in scen.get("_deps", {}).get(str(cmd["i"]), []) if futs.get(j) is not None]
                            rec["inputs_done"] = [bool(BaseDone(futs[j])) for j in deps]
                            rec["awaited_for"] = time.monotonic() - t0
                            break
                        time.sleep(0.0005)
            elif c == "shutdown":
                with LOCK:
                    log("sd_begin", wait=cmd["wait"], cancel=cmd["cancel"])
                try:
                    exe.shutdown(wait=cmd["wait"], cancel_futures=cmd["cancel"])
                    rec["raised"] = None
                except BaseException as e:  # noqa
                    rec["raised"] = type(e).__name__
                with LOCK:
                    log("sd_end", raised=rec["raised"])
                rec["done_after"] = {str(i): bool(BaseDone(f)) for i, f in futs.items() if f is not None}
                rec["procs_after"] = proc_scan() if cmd["wait"] else None
            elif c == "release":
                open(os.path.join(work, "gate_%s" % cmd["g"]), "w").close()
            elif c == "sleep":
                time.sleep(cmd["ms"] / 1000.0)
            elif c == "wait_enter":
                t0 = time.monotonic()
                f = futs.get(cmd["i"])
                while f is not None and time.monotonic() - t0 < 3:
                    if BaseDone(f) or any(l.startswith(f"enter {cmd['i']} ") for l in open(fnlog).read().splitlines()):
                        break
                    time.sleep(0.002)
            else:
                raise ValueError(c)
        except Exception as e:  # noqa
            rec["harness_exc"] = repr(e)
        obs["cmds"].append(rec)
        progress["t"] = time.monotonic()

    # let everything the script left running finish, then collect
    t_end = time.monotonic() + scen.get("settle", 6)
    for g in scen.get("gates", []):
        open(os.path.join(work, "gate_%s" % g), "w").close()
    while time.monotonic() < t_end:
        if all(BaseDone(f) for f in futs.values() if f is not None) and not any(
            t.is_alive() for t in threading.enumerate() if hasattr(t, "_vh_role")
        ):
            break
        time.sleep(0.01)
    for i, f in futs.items():
        if f is None:
            obs["results"][str(i)] = {"state": "rejected"}
        elif not BaseDone(f):
            obs["results"][str(i)] = {"state": "pending" if not f._state == "RUNNING" else "running"}
        elif _BaseFuture.cancelled(f):
            obs["results"][str(i)] = {"state": "cancelled"}
        else:
            e = f._exception
            if e is not None:
                obs["results"][str(i)] = {"state": "failed", "exc": type(e).__name__, "args": repr(e.args)}
            else:
                obs["results"][str(i)] = {"state": "finished", "value": f._result}
    obs["threads_alive"] = sorted(t._vh_role for t in threading.enumerate() if hasattr(t, "_vh_role") and t.is_alive())
    time.sleep(0.05)
    obs["procs_end"] = proc_scan()
    done_flag.set()
    dump()
    from vh.common import kill_descendants

    kill_descendants()
    os._exit(0)


if __name__ == "__main__":
    main()
