"""C06 — cancellation.  Lean: Props/C06.lean (cancelled_never_runs, started_or_finished_unaffected,
only_pending_cancelled) over the transition system Sys; tie: engine B (trace validation + oracles)."""
from __future__ import annotations

from .common import Ctx, run_check
from . import sysprop

PROFILE = {"fail": 0.0, "cancel": True, "cancel_p": 0.55, "deps": True, "multi_shutdown": False, "mid_shutdown": True,
           "gate_p": 0.5, "block_res_p": 0.0}

CORPUS = [
    # D1 witness: a queued call is cancelled, then shutdown(wait=True)
    {"executor": {"backend": "local", "block_allocation": True, "max_workers": 1, "disable_dependencies": True},
     "calls": [{"base": 1, "gate": 0, "args": [], "kwargs": {}}, {"base": 2, "args": [], "kwargs": {}}],
     "script": [{"c": "submit"}, {"c": "submit"}, {"c": "wait_enter", "i": 0}, {"c": "cancel", "i": 1},
                {"c": "release", "g": 0}, {"c": "shutdown", "wait": True, "cancel": False}],
     "gates": [0], "perturb": {}, "seed": 1, "timeout": 20, "settle": 6},
    # cancel a dependent parked in the resolver, and drain with cancel_futures
    {"executor": {"backend": "local", "block_allocation": False, "max_cores": 2, "disable_dependencies": False},
     "calls": [{"base": 1, "gate": 0, "args": [], "kwargs": {}}, {"base": 10, "args": [{"f": 0}], "kwargs": {}},
               {"base": 100, "args": [{"l": [{"f": 0}, {"v": 2}]}], "kwargs": {}}],
     "script": [{"c": "submit"}, {"c": "submit"}, {"c": "submit"}, {"c": "cancel", "i": 1}, {"c": "release", "g": 0},
                {"c": "shutdown", "wait": True, "cancel": True}],
     "gates": [0], "perturb": {}, "seed": 2, "timeout": 20, "settle": 6},
]

REQUIRED = ["mCancel", "wSrn", "wSend", "wFinish", "sdDrainCancel", "sdDrainGet", "rDecidePark", "rScanFwd"]


def body(ctx: Ctx):
    if ctx.replay_file:
        return sysprop.replay(ctx, "C06", ctx.replay_file)
    n = 90 if ctx.tier == "quick" else 900
    res = sysprop.campaign(ctx, "C06", PROFILE, n, CORPUS, REQUIRED)
    res["rule"] = ("scenarios: executor mode (block 1-3 workers | per-call with max_cores/max_workers/none), resolver on/off, "
                   "1-6 calls (gated / with futures as args, kwargs, nested lists), user script interleaving submit, cancel "
                   "(at queued / parked / running / finished points via gates), await, sleep, shutdown(wait, cancel_futures); "
                   "seeded schedule perturbation per thread role; non-trivial = >=2 calls or >=3 script commands; distinct = sha1")
    res["trusted_base_extra"] = sysprop.TRUST
    return res


def main(argv=None):
    run_check("C06", body, argv)


if __name__ == "__main__":
    main()
