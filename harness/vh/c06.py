"""C06 — cancellation.  Lean: Props/C06.lean (cancelled_never_runs, started_or_finished_unaffected,
only_pending_cancelled) over the transition system Sys; tie: engine B (trace validation + oracles)."""
from __future__ import annotations

from .common import Ctx, run_check
from . import sysprop

PROFILE = {"fail": 0.0, "cancel": True, "cancel_p": 0.55, "deps": True, "multi_shutdown": False, "mid_shutdown": True,
           "gate_p": 0.5, "block_res_p": 0.0}

CORPUS = [
    # a call with two inputs, the SECOND one cancelled while the first is still parked behind a running call: the dependent
    # fails with CancelledError once both are settled, nothing blocks
    {"executor": {"backend": "local", "block_allocation": True, "max_workers": 2, "disable_dependencies": False},
     "calls": [{"base": 1, "gate": 0, "args": [], "kwargs": {}}, {"base": 10, "args": [{"f": 0}], "kwargs": {}},
               {"base": 20, "args": [{"f": 0}], "kwargs": {}}, {"base": 100, "args": [{"f": 1}, {"f": 2}], "kwargs": {}}],
     "script": [{"c": "submit"}, {"c": "submit"}, {"c": "submit"}, {"c": "submit"}, {"c": "wait_enter", "i": 0}, {"c": "cancel", "i": 2},
                {"c": "sleep", "ms": 100}, {"c": "release", "g": 0}, {"c": "shutdown", "wait": True, "cancel": False}],
     "gates": [0], "perturb": {}, "seed": 9, "timeout": 15, "settle": 6},
    # D1 witness: a queued call is cancelled, then shutdown(wait=True)
    {"executor": {"backend": "local", "block_allocation": True, "max_workers": 1, "disable_dependencies": True},
     "calls": [{"base": 1, "gate": 0, "args": [], "kwargs": {}}, {"base": 2, "args": [], "kwargs": {}}],
     "script": [{"c": "submit"}, {"c": "submit"}, {"c": "wait_enter", "i": 0}, {"c": "cancel", "i": 1},
                {"c": "release", "g": 0}, {"c": "shutdown", "wait": True, "cancel": False}],
     "gates": [0], "perturb": {}, "seed": 1, "timeout": 20, "settle": 6},
    # cancel a dependent parked in the resolver, and drain with cancel_futures
    {"executor": {"backend": "local", "block_allocation": False, "max_cores": 2, "disable_dependencies": False},
     "calls": [{"base": 1, "gate": 0, "args": [], "kwargs": {}}, {"base": 10, "args": [{"f": 0}], "kwargs": {}},
               {"base": 100, "args": [{"l": [{"f": 0}, {"v": 2}]}], "kwargs": {}}],
     "script": [{"c": "submit"}, {"c": "submit"}, {"c": "submit"}, {"c": "cancel", "i": 1}, {"c": "release", "g": 0},
                {"c": "shutdown", "wait": True, "cancel": True}],
     "gates": [0], "perturb": {}, "seed": 2, "timeout": 20, "settle": 6},
]

REQUIRED = ["mCancel", "wSrn", "wSend", "wFinish", "sdDrainCancel", "sdDrainGet", "rDecidePark", "rScanFwd"]


def cache_cancel_scenarios(ctx: Ctx):
    """Cancellation on executors with a cache directory (the Lean model Sys has no cache: this part is decided by the
    property's oracles alone): cached and uncached calls cancelled while queued behind a slow call."""
    import json
    import os
    import subprocess
    import sys

    from .common import VERIF, InfraError

    from .common import finish_json_child, start_json_child

    repo = os.environ.get("VERIF_REPO", "/repo")
    procs = [(a, start_json_child(["vh.cache_cancel_runner"] + a.split()))
             for a in ("block 1 0", "block 1 1", "block 2 0", "percall 1 0", "percall 2 1")]
    bad = []
    for a, h in procs:
        o = finish_json_child(h, 300)
        if o is None:
            raise InfraError("cache-cancel runner produced no output (%s)" % a)
        if not os.path.realpath(o["pin"]).startswith(os.path.realpath(repo) + os.sep):
            raise InfraError("cache-cancel runner imported executorlib from " + o["pin"])
        ctx.case({"cache_cancel": a})
        ctx.count("cache_cancel_scenarios")
        problems = []
        for c in o["calls"]:
            if c["cancel_returned"] is True:
                if c["state"] != "cancelled":
                    problems.append({"call": c, "why": "cancel() returned True but the future is " + c["state"]})
                if c["kind"] == "new" and ("run %d" % c["x"]) in o["runs_second_session"]:
                    problems.append({"call": c, "why": "cancelled call was executed"})
            elif c["state"] != "finished" or c.get("value") != c["expected"]:
                problems.append({"call": c, "why": "a call that was not cancelled did not deliver its value"})
        if o["shutdown"] != "returned":
            problems.append({"why": "shutdown(wait=True): " + o["shutdown"]})
        if problems:
            bad.append({"scenario": a, "problems": problems[:4], "outcome": o})
    ctx.oblige("cache + cancel: a cancelled queued call (cached or not) stays cancelled and is not executed, every other call delivers "
               "its value, shutdown returns", not bad)
    if bad:
        ctx.violation({"kind": "cache_cancel", "failing_input": True},
                      {"what": "cancelling a queued call on an executor with a cache directory affected other calls / the shutdown, or the "
                               "cancelled call ran", "cases": bad[:2]})


def cache_cancel_histories(ctx: Ctx):
    """Cache histories with cancellation, validated against the transition system Cache with the label lookCancelled
    (Props/C06Cache.lean: cancelled_step_frame, dropped_never_computed, cache_sound_with_cancellation)."""
    from . import cache_engine as ce

    n = 14 if ctx.tier == "quick" else 120
    scens = []
    while len(scens) < n:
        sc = ce.gen_scenario(ctx.rng, {"cancel_p": 1.0, "nsessions": [1, 2, 2]})
        sc["_processes"] = 1
        scens.append(sc)
    outs = ce.run_many(scens, jobs=8)
    diffs, fails, dropped = [], [], 0
    for sc, o in zip(scens, outs):
        j = ce.judge_confirmed(ctx.model, sc, o)
        ctx.case({"cache_cancel_history": [len(x) for x in sc["sessions"]], "workers": sc["workers"], "block": sc["block"]})
        ctx.count("cache_cancel_histories")
        dropped += j["info"].get("lookCancelled", 0)
        rel = [x for x in j["oracles"] if x["oracle"] in ("cache_cancelled_call_not_cancelled", "cache_call_failed", "cache_wrong_value", "cache_hang")]
        if rel:
            fails.append((sc, j, rel))
        elif j["diff"] is not None:
            diffs.append((sc, j))
    ctx.count("labels.lookCancelled", dropped)
    ctx.oblige("cache histories with cancellation are runs of Cache.step (a cancelled queued call = lookCancelled: no compute, no write, "
               "no result), the calls the model drops = the calls whose cancel() returned True", not diffs, "%d dropped calls" % dropped)
    ctx.oblige("cache histories with cancellation: cancelled calls stay cancelled, all other calls deliver their value, no hang", not fails)
    clean = lambda sc: {k: v for k, v in sc.items() if not k.startswith("_")}
    if fails:
        sc, j, rel = fails[0]
        ctx.violation({"kind": "cache_cancel_history", "failing_input": True},
                      {"what": "cancellation on an executor with a cache directory: " + rel[0]["oracle"], "cache_scenario": clean(sc), "oracles": rel[:3]})
    elif diffs:
        sc, j = diffs[0]
        ctx.violation({"kind": "cache_cancel_correspondence", "failing_input": False},
                      {"what": "cache history with cancellation is not a run of the Lean model Cache (theorems of Props/C06Cache.lean no longer shown "
                               "to apply); no failing input found", "cache_scenario": clean(sc), "difference": j["diff"]}, no_input=True)
    if not ctx.replay_file and dropped < 3:
        from .common import InfraError

        raise InfraError("generator too thin: only %d cancelled look-ups exercised" % dropped)


def body(ctx: Ctx):
    if ctx.replay_file:
        import json as _json

        if "cases" in _json.load(open(ctx.replay_file)):
            cache_cancel_scenarios(ctx)
            return {"rule": "replay of the cache + cancel scenarios"}
        return sysprop.replay(ctx, "C06", ctx.replay_file)
    n = 90 if ctx.tier == "quick" else 900
    res = sysprop.campaign(ctx, "C06", PROFILE, n, CORPUS, REQUIRED)
    cache_cancel_scenarios(ctx)
    cache_cancel_histories(ctx)
    res["rule"] = ("scenarios: executor mode (block 1-3 workers | per-call with max_cores/max_workers/none), resolver on/off, "
                   "1-6 calls (gated / with futures as args, kwargs, nested lists), user script interleaving submit, cancel "
                   "(at queued / parked / running / finished points via gates), await, sleep, shutdown(wait, cancel_futures); "
                   "seeded schedule perturbation per thread role; non-trivial = >=2 calls or >=3 script commands; distinct = sha1; plus five oracle-only "
                   "scenarios with a cache directory (cached / uncached calls cancelled while queued) and cache histories with cancellation "
                   "replayed through Cache.step (label lookCancelled)")
    res["trusted_base_extra"] = sysprop.TRUST
    return res


def main(argv=None):
    run_check("C06", body, argv)


if __name__ == "__main__":
    main()
