"""C01 — result fidelity.  Lean: Props/C01.lean (result_fidelity, own_result_only, map_order) over Sys;
tie: engine B (trace validation, value oracle on programs with pairwise distinct results) plus a
differential run of real executors on rich values and dynamically defined callables."""
from __future__ import annotations

import json
import os
import subprocess
import sys
import tempfile

from .common import VERIF, Ctx, InfraError, run_check
from . import sysprop

PROFILE = {"fail": 0.0, "cancel": True, "cancel_p": 0.10, "deps": True, "multi_shutdown": False, "mid_shutdown": False,
           "gate_p": 0.45, "block_res_p": 0.0, "ncalls": [2, 3, 4, 5, 6, 7, 8]}

CORPUS = [
    # two workers, completion order reversed by gates: each future must still get its own value
    {"executor": {"backend": "local", "block_allocation": True, "max_workers": 2, "disable_dependencies": True},
     "calls": [{"base": 1, "gate": 0, "args": [{"v": 1}], "kwargs": {}}, {"base": 20, "args": [{"v": 2}], "kwargs": {}},
               {"base": 300, "args": [], "kwargs": {"p": {"v": 3}}}],
     "script": [{"c": "submit"}, {"c": "submit"}, {"c": "submit"}, {"c": "await", "i": 1}, {"c": "await", "i": 2},
                {"c": "release", "g": 0}, {"c": "shutdown", "wait": True, "cancel": False}],
     "gates": [0], "perturb": {}, "seed": 1, "timeout": 20, "settle": 6},
]

REQUIRED = ["wSend", "wFinish", "rForward", "rScanFwd", "dLaunch", "mAwait"]

RICH = os.path.join(VERIF, "harness", "vh", "rich_values.py")


def rich_run(seed: int, n: int, mode: str = "values") -> dict:
    """Real executors on rich values / dynamic callables, own process (workers must import /repo)."""
    work = tempfile.mkdtemp(prefix="vh_c01_")
    out = os.path.join(work, "out.json")
    env = dict(os.environ)
    env["PYTHONPATH"] = os.pathsep.join([os.environ.get("VERIF_REPO", "/repo"), os.path.join(VERIF, "harness"),
                                         os.path.join(VERIF, "harness", "standins")])
    try:
        with open(os.path.join(work, "stdout"), "w") as so, open(os.path.join(work, "stderr"), "w") as se:
            p = subprocess.Popen([sys.executable, RICH, str(seed), str(n), out] + (["exc"] if mode == "exc" else []), stdout=so, stderr=se,
                                 stdin=subprocess.DEVNULL, env=env, cwd=work, start_new_session=True)
            try:
                rc = p.wait(timeout=600)
            except subprocess.TimeoutExpired:
                rc = -9
            try:
                os.killpg(p.pid, 9)
            except Exception:  # noqa
                pass
        if not os.path.exists(out):
            raise InfraError("rich value run produced no output: rc=%s %s" % (rc, open(os.path.join(work, "stderr")).read()[-1500:]))
        return json.load(open(out))
    finally:
        import shutil

        shutil.rmtree(work, ignore_errors=True)


def body(ctx: Ctx):
    if ctx.replay_file:
        data = json.load(open(ctx.replay_file))
        if "rich_case" in data:
            r = rich_run(data["seed"], data["n"])
            bad = [c for c in r["cases"] if not c["ok"]]
            ctx.case({"replay": "rich"})
            ctx.oblige("replay reproduces no violation", not bad)
            if bad:
                ctx.violation({"kind": "replay", "failing_input": True}, {"rich_case": bad[0], "seed": data["seed"], "n": data["n"]})
            return {"rule": "replay"}
        return sysprop.replay(ctx, "C01", ctx.replay_file)
    n = 70 if ctx.tier == "quick" else 700
    res = sysprop.campaign(ctx, "C01", PROFILE, n, CORPUS, REQUIRED)
    # ---- rich values on real executors
    n_rich = 60 if ctx.tier == "quick" else 600
    r = rich_run(ctx.seed, n_rich)
    repo = os.path.realpath(os.environ.get("VERIF_REPO", "/repo"))
    if not os.path.realpath(r["pin_parent"]).startswith(repo + os.sep) or any(
            not os.path.realpath(w).startswith(repo + os.sep) for w in r["pin_workers"]):
        raise InfraError("rich value run did not import executorlib from /repo: %s %s" % (r["pin_parent"], r["pin_workers"][:2]))
    bad = []
    for c in r["cases"]:
        ctx.case({"rich": c["kind"], "mode": c["mode"], "shape": c["shape"]}, nontrivial=True)
        ctx.count("rich.kind." + c["kind"])
        ctx.count("rich.mode." + c["mode"])
        if not c["ok"]:
            bad.append(c)
    ctx.oblige("rich values: future.result() == direct call for every dynamically defined callable / value, all modes; map() in input order",
               not bad, f"{len(r['cases'])} calls, {len(bad)} differing")
    if bad:
        ctx.violation({"kind": "value", "failing_input": True},
                      {"what": "future.result() differs from calling the function directly", "rich_case": bad[0],
                       "seed": ctx.seed, "n": n_rich, "all_bad": bad[:5]})
    res["rich_calls"] = len(r["cases"])
    res["rule"] = ("(a) engine B scenarios with pairwise distinct results (base 10^i + args), completion order steered by gates, "
                   "all modes x 1-3 workers x resolver on/off; (b) real executors (block 1-3 workers, per-call, resolver on/off) on "
                   "scalars, nested containers, numpy arrays, bytes, sets, closures, lambdas, exec-defined functions, type()-built classes, "
                   "bound methods, partials; results tagged so a swapped reply is visible; map() order; non-trivial = >=2 calls; distinct = sha1")
    res["trusted_base_extra"] = sysprop.TRUST + ["cloudpickle round trip of the values used (the property's own quantifier)"]
    return res


def main(argv=None):
    run_check("C01", body, argv)


if __name__ == "__main__":
    main()
