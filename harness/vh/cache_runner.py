"""Scenario runner for the interactive cache (engine C, in-process part).
  python -m vh.cache_runner <scenario.json> <out.json>
Scenario: {"cache_dir", "workers": n, "resolver": bool, "block": bool, "sessions": [[call,...],...],
           "delay": probability of a short sleep after a persistence operation, "seed"}
call = {"fn": 0|1|2, "arg": int, "kw": int|null, "gate": optional}.  Each session = one executor
lifetime over the same directory.  Writes the linearised trace (queue/future/socket events of
vh.runner plus persistence events) and observations."""
from __future__ import annotations

import json
import os
import random
import sys
import threading
import time

from vh import runner as R


def f0(x, witness=None, kw=None, hold=None):
    import os as _os, time as _t
    if witness:
        fd = _os.open(witness, _os.O_WRONLY | _os.O_APPEND | _os.O_CREAT)
        _os.write(fd, f"f0 {x} {kw} {_os.getpid()} {_t.monotonic():.6f}\n".encode())
        _os.close(fd)
    if hold:
        _t.sleep(hold)
    return ("f0", x + 1000, kw)


def f1(x, witness=None, kw=None, hold=None):
    import os as _os, time as _t
    if witness:
        fd = _os.open(witness, _os.O_WRONLY | _os.O_APPEND | _os.O_CREAT)
        _os.write(fd, f"f1 {x} {kw} {_os.getpid()} {_t.monotonic():.6f}\n".encode())
        _os.close(fd)
    if hold:
        _t.sleep(hold)
    return ["f1", x * 2, {"kw": kw}]


def f2(x, witness=None, kw=None, hold=None):
    import os as _os, time as _t
    if witness:
        fd = _os.open(witness, _os.O_WRONLY | _os.O_APPEND | _os.O_CREAT)
        _os.write(fd, f"f2 {x} {kw} {_os.getpid()} {_t.monotonic():.6f}\n".encode())
        _os.close(fd)
    if hold:
        _t.sleep(hold)
    return x - 7 if kw is None else (x, kw)


FNS = [f0, f1, f2]


def expected(call):
    return FNS[call["fn"]](call["arg"], None, call.get("kw"))


def main():
    scen = json.load(open(sys.argv[1]))
    out_path = sys.argv[2]
    R._PERTURB["seed"] = scen.get("seed", 0)
    R._PERTURB["probs"] = scen.get("perturb", {})
    threading.current_thread()._vh_main = True
    R.install()
    import executorlib
    import h5py
    from executorlib.interactive import shared as ish

    rng = random.Random(scen.get("seed", 0))
    delay = scen.get("delay", 0.0)

    def h5hook(kind, path, detail):
        with R.LOCK:
            R.log("h5", kind=kind, file=os.path.basename(path), detail=detail)
        if delay and rng.random() < delay:
            time.sleep(rng.choice([0.001, 0.003, 0.01]))

    h5py._hook = h5hook

    class OsProxy:
        def __getattr__(self, name):
            return getattr(os, name)

        def listdir(self, d):
            R.perturb("listdir")
            with R.LOCK:
                r = os.listdir(d)
                R.log("listdir", files=sorted(r))
                return r

        def rename(self, a, b):
            R.perturb("rename")
            with R.LOCK:
                os.rename(a, b)
                R.log("rename", src=os.path.basename(a), dst=os.path.basename(b))

    ish.os = OsProxy()
    o_ser = ish.serialize_funct_h5

    def ser(*a, **kw):
        key, data = o_ser(*a, **kw)
        with R.LOCK:
            R.log("key", key=key)
        return key, data

    ish.serialize_funct_h5 = ser

    obs = {"pin_parent": executorlib.__file__, "sessions": [], "hang": False}
    witness = scen.get("witness") or os.path.join(scen["workdir"], "witness.log")
    done_flag = threading.Event()

    def dump_out():
        with R.LOCK:
            ev = list(R.EVENTS)
        wl = open(witness).read().splitlines()[scen.get("_witness_skip", 0):] if os.path.exists(witness) else []
        tmp = out_path + ".tmp"
        with open(tmp, "w") as fh:
            json.dump({"events": ev, "obs": obs, "witness": wl}, fh, default=str)
        os.replace(tmp, out_path)

    def watchdog():
        if not done_flag.wait(scen.get("timeout", 60)):
            obs["hang"] = True
            dump_out()
            from vh.common import kill_descendants
            kill_descendants()
            os._exit(3)

    threading.Thread(target=watchdog, daemon=True).start()
    cid = scen.get("first_call_id", 0)
    for si, sess in enumerate(scen["sessions"]):
        with R.LOCK:
            R.log("session_begin", s=si)
        # a session (= one executor) may set the dependency resolver on or off for itself: the same call over the same directory
        # must be the same cache entry whichever kind of executor it is submitted to
        res_on = sess[0].get("session_resolver", scen.get("resolver", False)) if sess else scen.get("resolver", False)
        kw = dict(backend="local", cache_directory=scen["cache_dir"], disable_dependencies=not res_on)
        if scen.get("block", True):
            kw.update(block_allocation=True, max_workers=scen.get("workers", 1))
        else:
            kw.update(block_allocation=False, max_cores=scen.get("workers", 1))
        exe = executorlib.Executor(**kw)
        futs = []
        cancels = {}
        for call in sess:
            R._tls.attempt = cid
            try:
                if call.get("hold"):
                    f = exe.submit(FNS[call["fn"]], call["arg"], witness, kw=call.get("kw"), hold=call["hold"])
                else:
                    f = exe.submit(FNS[call["fn"]], call["arg"], witness, kw=call.get("kw"))
            finally:
                R._tls.attempt = None
            if call.get("cancel"):
                cancels[str(cid)] = bool(f.cancel())     # queued behind a slow call: usually True
            futs.append((cid, call, f))
            cid += 1
            if call.get("wait"):
                try:
                    f.result(timeout=scen.get("timeout", 60))     # resubmissions after this point fall after completion
                except BaseException:  # noqa
                    pass
            if call.get("pause"):
                time.sleep(call["pause"] / 1000.0)
        rec = {"results": {}, "dir_before_shutdown": None, "cancels": cancels}
        import concurrent.futures as _cf

        for i, call, f in futs:
            if cancels.get(str(i)):
                rec["results"][str(i)] = {"ok": False, "cancelled": bool(f.cancelled()), "exc": "CancelledError" if f.cancelled() else "not cancelled",
                                          "expected": expected(call), "match": False}
                continue
            try:
                v = f.result(timeout=scen.get("timeout", 60))
                rec["results"][str(i)] = {"ok": True, "value": v, "expected": expected(call), "match": v == expected(call)}
            except BaseException as e:  # noqa
                rec["results"][str(i)] = {"ok": False, "exc": type(e).__name__, "msg": repr(e)[:200], "expected": expected(call), "match": False}
        try:
            exe.shutdown(wait=True)
            rec["shutdown_raised"] = None
        except BaseException as e:  # noqa
            rec["shutdown_raised"] = type(e).__name__
        import hashlib
        files = {}
        for fn in sorted(os.listdir(scen["cache_dir"])) if os.path.isdir(scen["cache_dir"]) else []:
            files[fn] = hashlib.sha1(open(os.path.join(scen["cache_dir"], fn), "rb").read()).hexdigest()[:12]
        rec["files_after"] = files
        with R.LOCK:
            R.log("session_end", s=si, t=time.monotonic())
        obs["sessions"].append(rec)
    done_flag.set()
    dump_out()
    from vh.common import kill_descendants
    kill_descendants()
    os._exit(0)


if __name__ == "__main__":
    main()
