"""Engine C (file mode): session histories of the file-based executor (FileExecutor with the
subprocess back end) on the h5py stand-in, with kill injection.  The cross-process persistence log
(vh_fs) of every session is mapped to labels of the Lean transition system `FileExec` and replayed
through `FileExec.step` by modeld; oracles for C13 (values, loop thread alive, nothing pending) and
C14 (after every interruption: no published entry with a missing / wrong value; a resubmission
yields the correct values) are evaluated."""
from __future__ import annotations

import json
import os
import shutil
import signal
import subprocess
import sys
import tempfile
import time
from concurrent.futures import ThreadPoolExecutor

from .common import VERIF, InfraError

PY = sys.executable


def call_class(calls, i):
    c = calls[i]
    return json.dumps([c["arg"], [call_class(calls, j) for j in c.get("deps", [])],
                       call_class(calls, c["kwdep"]) if c.get("kwdep") is not None else None])


def expected_value(calls, i, memo=None):
    memo = {} if memo is None else memo
    if i not in memo:
        c = calls[i]
        memo[i] = c["arg"] + sum(expected_value(calls, j, memo) for j in c.get("deps", [])) + (
            7 * expected_value(calls, c["kwdep"], memo) if c.get("kwdep") is not None else 0)
    return memo[i]


def gen_session(rng, pool):
    n = rng.choice([1, 2, 3, 4, 5])
    calls = []
    for k in range(n):
        r = rng.random()
        if k > 0 and r < 0.2:
            c = json.loads(json.dumps(rng.choice(calls)))          # identical to an earlier call of this session
            c.pop("wait", None)
        else:
            c = {"arg": rng.choice(pool)}
            if k > 0 and rng.random() < 0.55:
                c["deps"] = [rng.randrange(k) for _ in range(rng.choice([1, 1, 2]))]
            if k > 0 and rng.random() < 0.2:
                c["kwdep"] = rng.randrange(k)
        if rng.random() < 0.3:
            c["wait"] = True
        if rng.random() < 0.2:
            c["pause"] = rng.choice([5, 30, 120])
        calls.append(c)
    return calls


def gen_history(rng, profile=None):
    profile = profile or {}
    pool = [1, 10, 100]
    ns = rng.choice(profile.get("nsessions", [1, 2, 2, 3]))
    first = gen_session(rng, pool)
    sessions = [first]
    for _ in range(ns - 1):
        r = rng.random()
        if r < 0.4:
            sessions.append(json.loads(json.dumps(first)))          # resubmit the same calls (warm)
        elif r < 0.7:
            sessions.append(json.loads(json.dumps(first)) + gen_session(rng, pool)[:2])   # superset
        else:
            sessions.append(gen_session(rng, pool))
    # calls appended to a copied session refer to indices inside that session: keep deps within range
    for s in sessions:
        for k, c in enumerate(s):
            c["deps"] = [j for j in c.get("deps", []) if j < k]
            if c.get("kwdep") is not None and c["kwdep"] >= k:
                c.pop("kwdep")
    return {"sessions": sessions, "seed": rng.randrange(1 << 30), "kills": [None] * len(sessions)}


def run_history(hist: dict, keep: bool = False) -> dict:
    """Each session in its own interpreter over one cache directory.  hist["kills"][s] = None | "worker:k" | "parent:k"."""
    work = tempfile.mkdtemp(prefix="vh_f_")
    try:
        cache = os.path.join(work, "cache")
        os.makedirs(cache)
        env0 = dict(os.environ)
        env0["PYTHONPATH"] = os.pathsep.join([os.environ.get("VERIF_REPO", "/repo"), os.path.join(VERIF, "harness"),
                                              os.path.join(VERIF, "harness", "standins")])
        env0["PATH"] = os.path.join(VERIF, "harness", "standins", "bin") + os.pathsep + env0.get("PATH", "")
        res = []
        for si, calls in enumerate(hist["sessions"]):
            wd = os.path.join(work, "s%d" % si)
            os.makedirs(wd)
            log = os.path.join(wd, "fslog")
            scen = {"cache_dir": cache, "witness": os.path.join(work, "witness"), "calls": calls, "seed": hist.get("seed", 0) + si,
                    "timeout": hist.get("timeout", 45), "call_timeout": hist.get("call_timeout", 12), "first_call_id": 0}
            sp, op = os.path.join(wd, "scen.json"), os.path.join(wd, "out.json")
            json.dump(scen, open(sp, "w"))
            env = dict(env0, EXECUTORLIB_VERIF_FSLOG=log)
            kill = (hist.get("kills") or [None] * 99)[si]
            if kill:
                env["EXECUTORLIB_VERIF_KILL"] = kill
            wit0 = len(open(scen["witness"]).read().splitlines()) if os.path.exists(scen["witness"]) else 0
            with open(os.path.join(wd, "stdout"), "w") as so, open(os.path.join(wd, "stderr"), "w") as se:
                p = subprocess.Popen([PY, "-m", "vh.file_runner", sp, op], stdout=so, stderr=se, stdin=subprocess.DEVNULL,
                                     env=env, cwd=wd, start_new_session=True)
                try:
                    rc = p.wait(timeout=scen["timeout"] + 20)
                except subprocess.TimeoutExpired:
                    rc = -9
            # let worker processes that outlived a killed parent finish, then make sure nothing is left
            t0 = time.time()
            while time.time() - t0 < 6:
                try:
                    os.killpg(p.pid, 0)
                except ProcessLookupError:
                    break
                except Exception:  # noqa
                    break
                if rc not in (137, -9, 3):
                    break
                time.sleep(0.1)
            try:
                os.killpg(p.pid, signal.SIGKILL)
            except Exception:  # noqa
                pass
            events = [json.loads(l) for l in open(log).read().splitlines() if l.strip()] if os.path.exists(log) else []
            out = json.load(open(op)) if os.path.exists(op) else {"obs": None}
            files = {}
            for fn in sorted(os.listdir(cache)):
                files[fn] = read_entry(os.path.join(cache, fn))
            wit = open(scen["witness"]).read().splitlines()[wit0:] if os.path.exists(scen["witness"]) else []
            res.append({"rc": rc, "events": events, "obs": out.get("obs"), "files_after": files, "witness": wit, "kill": kill,
                        "stderr": open(os.path.join(wd, "stderr")).read()[-600:]})
        return {"sessions": res}
    finally:
        if not keep:
            shutil.rmtree(work, ignore_errors=True)


def read_entry(path):
    """What a later run would see in this file: (has output?, output) via the real get_output, or the error."""
    from executorlib.standalone.hdf import get_output

    try:
        ok, val = get_output(path)
        return {"ok": bool(ok), "value": val if isinstance(val, (int, type(None))) else repr(val)}
    except Exception as e:  # noqa
        return {"error": type(e).__name__}


def run_many(hists, jobs=6):
    with ThreadPoolExecutor(max_workers=jobs) as pool:
        return list(pool.map(run_history, hists))


class MapError(Exception):
    def __init__(self, msg, event=None):
        super().__init__(msg)
        self.event = event


def map_session(events, kill=None):
    """-> {"labels": [...], "keys": {call: key string}, "loop_died": bool}"""
    labels, keys = [], {}
    mem = []           # mirror of the model's memory list: call ids
    cur = None
    mode = "idle"
    procs = {}         # pid -> {"p": index, "stage": ...}
    nproc = 0
    loop_died = False
    stopped = False
    for ev in events:
        op, role = ev["op"], ev["role"]
        th = ev.get("th")
        if role == "parent":
            if op == "ev_put" and ev.get("kind") == "task":
                labels.append({"l": "submit"})
            elif op == "ev_put":
                stopped = True
            elif op == "ev_get" and th == "fileloop":
                if ev.get("kind") == "task":
                    cur, mode = ev["i"], "got"
                else:
                    mode = "stopping"
            elif op == "key" and th == "fileloop" and mode == "got":
                keys[cur] = ev["key"]
                labels.append({"l": "take"})
                mode = "converted"
            elif op == "listdir" and mode == "converted":
                labels.append({"l": "lookup"})
                mode = "present" if (keys[cur] + ".h5out") in ev["files"] else "writing"
                if mode == "present":
                    mem.append(cur)
            elif op == "remove" and mode == "writing":
                pass
            elif op in ("h5_open_a", "h5_create_dataset") and mode == "writing":
                pass
            elif op == "h5_create_dataset_exists" and mode == "writing":
                labels.append({"l": "writeInput"})      # the append to a leftover input file fails: the model decides (D15)
                mode = "dying"
            elif op == "h5_close" and mode == "writing" and ev["file"].endswith(".h5in"):
                labels.append({"l": "writeInput"})
                mode = "written"
            elif op == "exists" and ev["file"].endswith(".h5in"):
                pass
            elif op == "popen" and mode == "written":
                labels.append({"l": "launch"})
                procs[ev["child"]] = {"p": nproc, "stage": "started", "last_n": 0}
                nproc += 1
                mem.append(cur)
                mode = "launched"
            elif op == "ev_task_done" and th == "fileloop":
                if mode == "converted":
                    labels.append({"l": "lookup"})        # key already in memory: duplicate of an in-flight call (D13)
                elif mode not in ("present", "launched", "stopping"):
                    raise MapError("loop thread acknowledged a task in state " + mode, ev)
                mode = "idle"
            elif op in ("exists", "h5_open_r", "h5_has_output") and mode in ("idle", "got", "converted"):
                pass                                       # idle branch polling a result file
            elif op == "ev_set_result" and th == "fileloop":
                if ev["i"] not in mem:
                    raise MapError("result delivered to a call that is not in memory", ev)
                k = mem.index(ev["i"])
                labels.append({"l": "collect", "k": k})
                mem.pop(k)
            elif op == "ev_thread_end" and th == "fileloop":
                if ev.get("exc"):
                    loop_died = True
                    if mode == "written":
                        labels.append({"l": "launch"})     # the launch raised (D14): the model decides
                    elif mode not in ("dying",):
                        raise MapError("loop thread died in state %s: %s" % (mode, ev.get("msg")), ev)
            elif op in ("session_begin", "session_collect_done", "session_end", "ev_thread_start", "ev_set_exception", "ev_submit_raised"):
                pass
            elif op in ("h5_open_r_missing",):
                pass
            else:
                if th == "fileloop" or op.startswith("h5_"):
                    raise MapError("unmapped loop-thread event %s in state %s" % (op, mode), ev)
        else:
            pr = procs.get(ev["pid"])
            if pr is None:
                # a rank > 0 of a multi-core worker, or a process of an earlier session still running
                continue
            pr["last_n"] = ev["n"]
            p = pr["p"]
            if op == "rename" and ev["src"].endswith(".h5in") and ev["dst"].endswith(".h5ready"):
                labels += [{"l": "pLoad", "p": p}, {"l": "pCall", "p": p}, {"l": "pStage", "p": p}]
                pr["stage"] = "staged"
            elif op == "h5_create_dataset" and ev["file"].endswith(".h5ready") and ev["detail"] == "output":
                labels.append({"l": "pWrite", "p": p})
                pr["stage"] = "written"
            elif op == "rename" and ev["src"].endswith(".h5ready") and ev["dst"].endswith(".h5out"):
                labels.append({"l": "pPublish", "p": p})
                pr["stage"] = "exited"
            elif op == "h5_open_r_missing":
                labels.append({"l": "pLoad", "p": p})      # input or a producer's output is missing: the worker dies
                pr["stage"] = "crashed"
            if kill and kill.startswith("worker:") and ev["n"] == int(kill.split(":")[1]) and pr["stage"] not in ("exited", "crashed"):
                labels.append({"l": "crashProc", "p": p})
                pr["stage"] = "crashed"
    return {"labels": labels, "keys": keys, "loop_died": loop_died, "nproc": nproc}


def judge(model, hist, out, variant=None):
    variant = variant or {"depsLaunchedOnly": True, "staleInputRemoved": True}
    oracles, info = [], {"sessions": len(hist["sessions"])}
    diff = None
    keyids = {}
    req_sessions = []
    entry_expect = {}       # key string -> expected value
    for si, (calls, sres) in enumerate(zip(hist["sessions"], out["sessions"])):
        kill = sres["kill"]
        obs = sres["obs"]
        try:
            ms = map_session(sres["events"], kill)
        except MapError as e:
            if diff is None:
                diff = {"kind": "unmapped_event", "session": si, "detail": str(e), "event": e.event}
            ms = {"labels": [], "keys": {}, "loop_died": False, "nproc": 0}
        memo = {}
        for i, k in ms["keys"].items():
            keyids.setdefault(k, len(keyids))
            ev = expected_value(calls, i, memo)
            if k in entry_expect and entry_expect[k] != ev:
                oracles.append({"oracle": "file_key_collision", "key": k, "values": [entry_expect[k], ev]})
            entry_expect[k] = ev
        req_sessions.append({
            "ncalls": len(calls),
            "deps": [c.get("deps", []) + ([c["kwdep"]] if c.get("kwdep") is not None else []) for c in calls],
            "weights": [[1] * len(c.get("deps", [])) + ([7] if c.get("kwdep") is not None else []) for c in calls],
            "base": [c["arg"] for c in calls],
            "keyOf": [keyids.get(ms["keys"].get(i), 10 ** 6 + 1000 * si + i) for i in range(len(calls))],
            "labels": ms["labels"], "parent_killed": bool(kill and kill.startswith("parent:")),
        })
        # ---- oracles on observations
        if kill is None:
            dup_inflight = set()
            seen = {}
            for i, c in enumerate(calls):
                cl = call_class(calls, i)
                if cl in seen:
                    dup_inflight.add(i)
                seen.setdefault(cl, i)
            if obs is None or obs.get("hang"):
                # a dependent of a dropped duplicate blocks the loop thread in result() forever (consequence of finding D13)
                dep_on_dup = any(j in dup_inflight for c in calls for j in c.get("deps", []) + ([c["kwdep"]] if c.get("kwdep") is not None else []))
                oracles.append({"oracle": "file_lost_future_duplicate" if dep_on_dup else "file_hang", "session": si, "hang": True,
                                "stderr": sres["stderr"][-300:]})
            else:
                for i in range(len(calls)):
                    r = obs["results"].get(str(i))
                    want = expected_value(calls, i, memo)
                    if r is None or not r.get("ok"):
                        oracles.append({"oracle": "file_lost_future_duplicate" if i in dup_inflight else "file_lost_future",
                                        "session": si, "i": i, "got": r})
                    elif r["value"] != want:
                        oracles.append({"oracle": "file_wrong_value", "session": si, "i": i, "got": r["value"], "expected": want})
                if not obs.get("loop_alive_at_end"):
                    oracles.append({"oracle": "file_loop_thread_dead", "session": si, "stderr": sres["stderr"][-300:]})
                if obs.get("shutdown_raised"):
                    oracles.append({"oracle": "file_shutdown_raised", "session": si, "exc": obs["shutdown_raised"]})
        # ---- C14: every published entry is complete and correct, whatever happened
        for fn, ent in sres["files_after"].items():
            if fn.endswith(".h5out"):
                k = fn[: -len(".h5out")]
                if ent.get("error") or not ent.get("ok"):
                    oracles.append({"oracle": "file_entry_incomplete", "session": si, "file": fn, "entry": ent, "kill": kill})
                elif k in entry_expect and ent["value"] != entry_expect[k]:
                    oracles.append({"oracle": "file_entry_wrong", "session": si, "file": fn, "entry": ent, "expected": entry_expect[k], "kill": kill})
    if diff is None:
        rep = model.ask("file_replay", variant=variant, sessions=req_sessions)
        info["labels"] = sum(len(s["labels"]) for s in req_sessions)
        if not rep["accepted"]:
            s = req_sessions[rep["session"]]
            diff = {"kind": "trace_rejected", "session": rep["session"], "index": rep["index"],
                    "labels": s["labels"][max(0, rep["index"] - 6): rep["index"] + 1], "state": rep.get("state")}
        else:
            info["model"] = rep["sessions"]
            for si, (ms, sres) in enumerate(zip(rep["sessions"], out["sessions"])):
                obs = sres["obs"]
                if obs and not sres["kill"] and not obs.get("hang"):
                    for i, v in enumerate(ms["futures"]):
                        r = obs["results"].get(str(i))
                        if v is not None and r and r.get("ok") and r["value"] != v:
                            diff = {"kind": "result_differs_from_model", "session": si, "i": i, "model": v, "impl": r["value"]}
                    if ms["loop_dead"] != (not obs.get("loop_alive_at_end")):
                        diff = diff or {"kind": "loop_liveness_differs_from_model", "session": si, "model_dead": ms["loop_dead"],
                                        "impl_alive": obs.get("loop_alive_at_end")}
    return {"diff": diff, "oracles": oracles, "info": info}
