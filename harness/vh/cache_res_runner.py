"""python -m vh.cache_res_runner  -> one JSON line.
Calls that differ ONLY in their resources (working directory per call / per executor, number of cores) over one cache
directory: each must deliver the value of its own call (C08: a stored result is reused only for the same resources)."""
import json
import os
import sys
import tempfile


def where(tag):
    import os as _os

    return [_os.getcwd(), tag]


def kwshow(**kw):
    return [[k, v] for k, v in kw.items()]


def describe(x):
    return [type(x).__name__, repr(x)]


class Box:
    """hashed and compared by identity; its content is what a call depends on"""

    def __init__(self, content):
        self.content = content


def unpack(box):
    return box.content


def main():
    import executorlib

    base = tempfile.mkdtemp(prefix="vh_cr_")
    cache = os.path.join(base, "cache")
    dirs = [os.path.join(base, "d%d" % i) for i in range(3)]
    for d in dirs:
        os.makedirs(d)
    out = {"pin": executorlib.__file__, "cases": []}

    def rec(name, fut, want):
        try:
            got = fut.result(timeout=60)
        except BaseException as e:  # noqa
            got = "EXC:" + type(e).__name__
        out["cases"].append({"case": name, "got": got, "want": want, "ok": got == want})

    R = os.path.realpath
    # per-call working directories, one executor, with and without the resolver
    for dd in (True, False):
        with executorlib.Executor(backend="local", block_allocation=False, max_cores=1, cache_directory=cache, disable_dependencies=dd) as e:
            for k, d in enumerate([dirs[0], dirs[1], dirs[0], dirs[2]]):
                rec("percall cwd #%d nodeps=%s" % (k, dd), e.submit(where, "t", resource_dict={"cwd": d}), [R(d), "t"])
    # executor-level working directory, block allocation, a new executor per directory
    for dd in (True, False):
        for k, d in enumerate([dirs[1], dirs[2], dirs[1]]):
            with executorlib.Executor(backend="local", block_allocation=True, max_workers=1, cache_directory=cache, disable_dependencies=dd,
                                      resource_dict={"cwd": d}) as e:
                rec("executor cwd #%d nodeps=%s" % (k, dd), e.submit(where, "u"), [R(d), "u"])
    # number of cores (MPI stand-in): one value per rank
    for cores in (1, 2, 1, 3):
        with executorlib.Executor(backend="local", block_allocation=True, max_workers=1, cache_directory=cache, disable_dependencies=True,
                                  resource_dict={"cores": cores, "cwd": dirs[0]}) as e:
            want = [R(dirs[0]), "v"] if cores == 1 else [[R(dirs[0]), "v"]] * cores
            rec("cores=%d" % cores, e.submit(where, "v"), want)
    # arguments that are == (and hash alike) but are different values, and one object resubmitted after its state changed:
    # over one cache directory, in one interpreter, on one executor and on a second one
    import numpy as np

    equal_but_distinct = [1, 1.0, True, 0, False, 0.0, -0.0, "1", b"1", (1,), (1.0,), [1], [True], 1 + 0j, np.int64(1), np.float64(1.0),
                          frozenset([1]), frozenset([1.0]), None, "", (), {"a": 1}, {"a": 1.0}]
    cache2 = os.path.join(base, "cache_eq")
    box = Box("first")
    for rnd, order in enumerate([equal_but_distinct, list(reversed(equal_but_distinct))]):
        with executorlib.Executor(backend="local", block_allocation=True, max_workers=1, cache_directory=cache2, disable_dependencies=bool(rnd)) as e:
            for x in order:
                rec("equal-but-distinct argument %r (%s), executor %d" % (x, type(x).__name__, rnd), e.submit(describe, x), describe(x))
            for kw in (2, 2.0, True):
                rec("equal-but-distinct keyword %r, executor %d" % (kw, rnd), e.submit(describe, x=kw), describe(kw))
            rec("object with state %r, executor %d" % (box.content, rnd), e.submit(unpack, box), box.content)
            box.content = "second" if rnd == 0 else "third"
            rec("same object after its state changed to %r, executor %d" % (box.content, rnd), e.submit(unpack, box), box.content)
    # the order of keyword arguments is visible to the function (PEP 468): the same keywords in another order are another call
    cache3 = os.path.join(base, "cache_kw")
    for rnd in range(2):
        with executorlib.Executor(backend="local", block_allocation=bool(rnd), cache_directory=cache3, **({"max_workers": 1} if rnd else {"max_cores": 1})) as e:
            for kws in ({"create": 1, "file": "a"}, {"file": "a", "create": 1}, {"create": 1, "file": "a"}, {"file": "a", "create": 1, "z": 0}, {"z": 0, "file": "a", "create": 1}):
                rec("keyword order %r, executor %d" % (list(kws), rnd), e.submit(kwshow, **kws), kwshow(**kws))
    print(json.dumps(out), flush=True)
    os._exit(0)


if __name__ == "__main__":
    main()
