"""A user script that ENDS while calls are still running (engine B keeps its interpreter alive; this one does not):
  python -m vh.exit_runner <scen.json>
creates the executor, submits the calls (each sleeps, logging pid / enter / exit lines to scen["log"]), then
  mode "nowait": shutdown(wait=False);  "drop": del executor;  "leave": nothing at all;  "with_nowait": a with-block whose body
  called shutdown(wait=False)
and falls off the end of the script: a normal interpreter exit (threading._shutdown waits for non-daemon threads)."""
import json
import os
import sys
import time


def body(i, log, hold):
    import os as _os
    import time as _t
    fd = _os.open(log, _os.O_WRONLY | _os.O_APPEND | _os.O_CREAT)
    _os.write(fd, ("enter %d %d\n" % (i, _os.getpid())).encode())
    _t.sleep(hold)
    _os.write(fd, ("exit %d %d\n" % (i, _os.getpid())).encode())
    _os.close(fd)
    return i


def main():
    scen = json.load(open(sys.argv[1]))
    import executorlib

    log = scen["log"]
    with open(log, "a") as fh:
        fh.write("pin %s\n" % executorlib.__file__)

    def done_cb(i):
        def cb(f):
            fd = os.open(log, os.O_WRONLY | os.O_APPEND | os.O_CREAT)
            os.write(fd, ("done %d %s\n" % (i, "cancelled" if f.cancelled() else ("exc" if f.exception() else "ok"))).encode())
            os.close(fd)
        return cb

    def submit_all(exe):
        prev = None
        for i in range(scen["n"]):
            if scen.get("chain") and prev is not None and i % 2 == 1:
                f = exe.submit(body, prev, log, scen["hold"])     # depends on the previous call (resolver only)
            else:
                f = exe.submit(body, i, log, scen["hold"])
            f.add_done_callback(done_cb(i))
            prev = f
        # wait until the first call is running inside a worker
        t0 = time.monotonic()
        while time.monotonic() - t0 < 10:
            if any(l.startswith("enter ") for l in open(log).read().splitlines()):
                break
            time.sleep(0.01)

    mode = scen["mode"]
    if mode == "with_nowait":
        with executorlib.Executor(**scen["executor"]) as exe:
            submit_all(exe)
            exe.shutdown(wait=False)
            with open(log, "a") as fh:
                fh.write("script_shutdown_returned\n")
    else:
        exe = executorlib.Executor(**scen["executor"])
        submit_all(exe)
        if mode == "nowait":
            exe.shutdown(wait=False)
        elif mode == "drop":
            del exe
        elif mode == "leave":
            pass
    with open(log, "a") as fh:
        fh.write("script_end\n")


if __name__ == "__main__":
    main()
