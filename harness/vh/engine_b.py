"""Engine B — thread-level correspondence: generated scenarios are executed on the real executor
(vh.runner, own process each), the linearised trace is mapped to `Sys` labels and replayed through
the Lean `step` function (trace validation), and property oracles are evaluated on what was
observed.  A difference or an oracle failure is a failing input (the scenario)."""
from __future__ import annotations

import json
import os
import shutil
import signal
import subprocess
import sys
import tempfile
import time
from concurrent.futures import ThreadPoolExecutor

from .common import VERIF, Ctx, InfraError
from .sysmap import MapError, deps_of as _deps_of, map_events, model_case, rejected_of

PY = sys.executable


# --------------------------------------------------------------------------------------------
# scenario generation


def gen_scenario(rng, profile: dict) -> dict:
    """profile keys: fail (prob of failing calls), cancel (bool), deps (bool), multi_shutdown (bool),
    modes (list of 'block'/'percall'), resources (bool)."""
    mode = rng.choice(profile.get("modes", ["block", "percall"]))
    resolver = rng.random() < profile.get("resolver_p", 0.6)
    ex = {"backend": "local", "disable_dependencies": not resolver}
    if mode == "block":
        n = rng.choice(profile.get("block_workers", [1, 1, 2, 2, 3]))
        ex.update(block_allocation=True, max_workers=n)
        limit = None
    else:
        ex.update(block_allocation=False)
        r = rng.random()
        if r < 0.6:
            limit = rng.choice([1, 2, 2, 3, 4])
            ex["max_cores"] = limit
        elif r < 0.9:
            limit = None
            ex["max_workers"] = rng.choice([1, 2, 3])
        else:
            limit = None
    if mode != "block" and profile.get("resources", True) and rng.random() < profile.get("slurm_p", 0.2):
        # srun stand-in: the executor-level threads_per_core is handed to the workers and counts in the slots (fix 8703212)
        ex["backend"] = "slurm_allocation"
        ex["hostname_localhost"] = True
        t = rng.choice([1, 2, 2, 3])
        if limit is not None:
            t = min(t, limit)
        ex["resource_dict"] = {"threads_per_core": t}
    if rng.random() < profile.get("cache_p", 0.15):
        # a (fresh, per-run) cache directory: every call of a scenario has its own key, so all look-ups miss and the run is
        # a run of Sys all the same; the extra code path (serialize, listdir, dump, rename) is what this exercises
        ex["cache_directory"] = "@WORK/cache"
    ncalls = rng.choice(profile.get("ncalls", [1, 2, 3, 3, 4, 5, 6]))
    calls = []
    gates = []
    for i in range(ncalls):
        c = {"base": 10 ** (i % 5) * (1 + i // 5) + i}
        if rng.random() < profile.get("fail", 0.0):
            c["fail"] = rng.choice(["value", "user", "json", "base", "stop"])
        if rng.random() < profile.get("gate_p", 0.35):
            c["gate"] = len(gates)
            gates.append(len(gates))
        args, kwargs = [], {}
        if rng.random() < profile.get("array_p", 0.2):
            # a numpy array as first positional argument: comparing two task dictionaries with == then raises
            args.append({"a": [rng.randrange(0, 4), rng.randrange(0, 4), i]})
        if resolver and profile.get("deps", True) and i > 0:
            for _ in range(rng.choice(profile.get("dep_weights", [0, 0, 1, 1, 2, 3]))):
                j = rng.randrange(0, i)
                shape = rng.random()
                if shape < 0.45:
                    args.append({"f": j})
                elif shape < 0.65:
                    kwargs["k%d" % len(kwargs)] = {"f": j}
                elif shape < 0.85:
                    args.append({"l": [{"f": j}, {"v": rng.randrange(0, 5)}]})
                else:
                    args.append({"l": [{"v": 1}, {"l": [{"f": j}]}]})
        if rng.random() < 0.5:
            args.append({"v": rng.randrange(0, 9)})
        if rng.random() < 0.2:
            kwargs["p"] = {"v": rng.randrange(0, 9)}
        c["args"], c["kwargs"] = args, kwargs
        if profile.get("resources", True) and mode == "percall" and rng.random() < profile.get("res_p", 0.5):
            t = rng.choice([1, 1, 2, 2, 3])
            if limit is not None:
                t = min(t, limit)        # a request above the limit starves (finding D10), kept out here
            c["resource_dict"] = rng.choice([{"threads_per_core": t}, {"cores": 1, "threads_per_core": t}])
        elif profile.get("resources", True) and mode == "block" and rng.random() < profile.get("block_res_p", 0.05):
            c["resource_dict"] = {"cores": 1}
        calls.append(c)
    # script
    script = []
    submitted = []
    open_gates = set()
    pending_idx = list(range(ncalls))

    def release_all():
        for g in gates:
            if g not in open_gates and any(calls[i].get("gate") == g for i in submitted):
                script.append({"c": "release", "g": g})
                open_gates.add(g)

    while pending_idx:
        i = pending_idx.pop(0)
        script.append({"c": "submit"})
        submitted.append(i)
        r = rng.random()
        pc = profile.get("cancel_p", 0.30) if profile.get("cancel", True) else 0.0
        if r < pc and submitted:
            tgt = rng.choice(submitted)
            if rng.random() < 0.5 and calls[submitted[0]].get("gate") is not None:
                script.append({"c": "wait_enter", "i": submitted[0]})
            script.append({"c": "cancel", "i": tgt})
            if rng.random() < 0.25:
                script.append({"c": "cancel", "i": rng.choice(submitted)})
        elif r < pc + 0.10:
            script.append({"c": "sleep", "ms": rng.choice([1, 5, 20])})
        elif r < pc + 0.20 and submitted:
            tgt = rng.choice(submitted)
            release_all()
            script.append({"c": "await", "i": tgt})
        elif r < pc + 0.20 + profile.get("mid_shutdown_p", 0.08) and profile.get("mid_shutdown", True):
            w = rng.random() < 0.5
            if w:
                release_all()
            script.append({"c": "shutdown", "wait": w, "cancel": rng.random() < 0.5})
    nshut = rng.choice([1, 1, 1, 2, 3]) if profile.get("multi_shutdown", True) else 1
    if rng.random() < profile.get("no_final_shutdown_p", 0.0):
        nshut = 0
    for _ in range(nshut):
        w = rng.random() < 0.7
        if w:
            release_all()
        script.append({"c": "shutdown", "wait": w, "cancel": rng.random() < 0.35})
    if nshut == 0:
        release_all()
        script.append({"c": "shutdown", "wait": False, "cancel": False})
    perturb = {}
    for role in ("main", "resolver", "disp", "worker"):
        perturb[role] = rng.choice([0, 0, 0.1, 0.3, 0.6])
    return {"executor": ex, "calls": calls, "script": script, "gates": gates, "perturb": perturb,
            "seed": rng.randrange(1 << 30), "timeout": profile.get("timeout", 20), "settle": 6}


def has_failing(scen):
    return any(c.get("fail") for c in scen["calls"])


# --------------------------------------------------------------------------------------------
# execution


def run_one(scen: dict, keep: bool = False) -> dict:
    work = tempfile.mkdtemp(prefix="vh_b_")
    try:
        scen = dict(scen, workdir=work)
        scen["_deps"] = {str(i): sorted(set(_deps_of(c))) for i, c in enumerate(scen["calls"])}
        sp = os.path.join(work, "scen.json")
        op = os.path.join(work, "out.json")
        json.dump(scen, open(sp, "w"))
        env = dict(os.environ)
        env["PYTHONPATH"] = os.pathsep.join([os.environ.get("VERIF_REPO", "/repo"), os.path.join(VERIF, "harness"),
                                             os.path.join(VERIF, "harness", "standins")])
        t0 = time.time()
        with open(os.path.join(work, "stdout"), "w") as so, open(os.path.join(work, "stderr"), "w") as se:
            p = subprocess.Popen([PY, "-m", "vh.runner", sp, op], stdout=so, stderr=se, stdin=subprocess.DEVNULL,
                                 env=env, cwd=work, start_new_session=True)
            try:
                rc = p.wait(timeout=scen.get("timeout", 20) + scen.get("settle", 6) + 20)
            except subprocess.TimeoutExpired:
                rc = -9
            try:
                os.killpg(p.pid, signal.SIGKILL)
            except Exception:  # noqa
                pass
        res = {"rc": rc, "wall": round(time.time() - t0, 2)}
        if os.path.exists(op):
            res.update(json.load(open(op)))
        else:
            res["stderr"] = open(os.path.join(work, "stderr")).read()[-2000:]
        return res
    finally:
        if not keep:
            shutil.rmtree(work, ignore_errors=True)


def run_many(scens: list, jobs: int = 10) -> list:
    with ThreadPoolExecutor(max_workers=jobs) as pool:
        outs = list(pool.map(run_one, scens))
    # a runner that produced no trace at all (killed, out of time on a loaded machine) is run once more, alone
    for k, o in enumerate(outs):
        if "events" not in o:
            outs[k] = run_one(scens[k])
    return outs


# --------------------------------------------------------------------------------------------
# judging one run


_REJ = set()


def deps_of(call):
    return _deps_of(call, _REJ)


def expected_values(scen):
    """Sequential evaluation of the program (E.4): value or ('err', first failing ancestor)."""
    from .sysmap import plain_sum

    vals = {}
    for i, c in enumerate(scen["calls"]):
        err = None
        tot = c.get("base", 0) + plain_sum(c)
        for j in deps_of(c):
            if isinstance(vals[j], tuple):
                err = vals[j]
                break
            tot += vals[j]
        if err is not None:
            vals[i] = err
        elif c.get("fail"):
            vals[i] = ("err", i)
        else:
            vals[i] = tot
    return vals


def judge(model, scen: dict, out: dict) -> dict:
    """Returns {'diff': None|{...}, 'oracles': [failures], 'info': {...}}."""
    info = {"rc": out.get("rc"), "wall": out.get("wall")}
    if "events" not in out:
        raise InfraError("runner produced no trace: " + str(out.get("stderr"))[:1500])
    obs = out["obs"]
    global _REJ
    _REJ = rejected_of(scen, obs=obs, events=out["events"])
    if not os.path.realpath(obs["pin_parent"]).startswith(os.path.realpath(os.environ.get("VERIF_REPO", "/repo")) + os.sep):
        raise InfraError("runner imported executorlib from " + obs["pin_parent"])
    for line in out.get("fnlog", []):
        parts = line.split(" ")
        if len(parts) >= 7 and not parts[6].startswith(os.environ.get("VERIF_REPO", "/repo") + "/"):
            raise InfraError("worker imported executorlib from " + parts[6])
    case = model_case(scen, obs)
    diff = None
    labels, where = [], []
    try:
        labels, where = map_events(scen, out["events"])
    except MapError as e:
        diff = {"kind": "unmapped_event", "detail": str(e), "event": e.event}
        labels = e.labels
    rep = model.ask("sys_replay", labels=labels, **case)
    info["labels"] = len(labels)
    info["label_kinds"] = sorted(set(l["l"] for l in labels))
    if not rep["accepted"] and diff is None:
        diff = {"kind": "trace_rejected", "index": rep["index"], "label": rep["label"], "enabled": rep["enabled"],
                "event_index": where[rep["index"]] if rep["index"] < len(where) else None,
                "state": rep["state"]}
    hang = bool(obs.get("hang")) or out.get("rc") not in (0,)
    info["hang"] = hang
    info["model_enabled_at_end"] = rep.get("enabled") if rep["accepted"] else None
    oracles = []
    results = obs.get("results", {})
    exp = expected_values(scen)
    # ---- hang
    if hang:
        predicted = rep["accepted"] and rep.get("enabled") == []
        oracles.append({"oracle": "no_hang", "predicted_by_model": predicted,
                        "detail": {"stacks": obs.get("stacks"), "cmds_done": len(obs.get("cmds", []))}})
    else:
        # ---- values (C01/C03/C04)
        for k, r in results.items():
            i = int(k)
            e = exp[i]
            if r["state"] == "finished":
                if isinstance(e, tuple) or r["value"] != e:
                    oracles.append({"oracle": "value", "i": i, "got": r, "expected": e})
            elif r["state"] == "failed":
                def cancelled_ancestor(i0, seen=None):
                    seen = seen or set()
                    for j in deps_of(scen["calls"][i0]):
                        rj = results.get(str(j), {})
                        if rj.get("state") == "cancelled" or (rj.get("state") == "failed" and rj.get("exc") == "CancelledError" and j not in seen and cancelled_ancestor(j, seen | {j})):
                            return True
                    return False
                if r["exc"] == "CancelledError" and cancelled_ancestor(i):
                    pass  # a dependent of a cancelled call fails with CancelledError
                elif not isinstance(e, tuple):
                    oracles.append({"oracle": "unexpected_failure", "i": i, "got": r, "expected": e})
                else:
                    src = scen["calls"][e[1]]
                    want = {"value": ("ValueError", repr(("boom", e[1]))), "user": ("UserError", repr(("boom", e[1]))),
                            "json": ("JSONDecodeError", None), "base": ("StopWork", repr(("boom", e[1]))), "stop": ("StopIteration", repr(("boom", e[1])))}[src["fail"]]
                    cancelled_dep = any(results.get(str(j), {}).get("state") == "cancelled" for j in deps_of(scen["calls"][i]))
                    if r["exc"] != want[0] and not (cancelled_dep and r["exc"] == "CancelledError"):
                        oracles.append({"oracle": "exception_class", "i": i, "got": r, "expected": want})
                    elif want[1] is not None and r["exc"] == want[0] and r["args"] != want[1]:
                        oracles.append({"oracle": "exception_args", "i": i, "got": r, "expected": want})
            elif r["state"] in ("pending", "running"):
                oracles.append({"oracle": "lost_future", "i": i, "got": r})
        # ---- starvation probe (scenarios that set "starvation_probe": workers are free by construction): the script waited for a
        # call whose inputs had all finished, and gave up
        if scen.get("starvation_probe"):
            for cmd in obs.get("cmds", []):
                if cmd["c"] == "await" and cmd.get("gave_up") and cmd.get("inputs_done") and all(cmd["inputs_done"]):
                    oracles.append({"oracle": "await_starved", "i": cmd.get("i"), "awaited_for_s": round(cmd.get("awaited_for", 0), 2),
                                    "detail": "all inputs of the call were finished, a worker was free, yet the call was not handed on"})
        # ---- after shutdown(wait=True): all done, no processes (C02/C12); shutdown raised only a call's exception (C05)
        for cmd in obs.get("cmds", []):
            if cmd["c"] == "shutdown":
                if cmd.get("raised") and cmd["raised"] not in ("ValueError", "UserError", "JSONDecodeError", "StopWork", "StopIteration"):
                    oracles.append({"oracle": "shutdown_raised", "exc": cmd["raised"]})
            if cmd.get("harness_exc"):
                raise InfraError("runner command failed: " + cmd["harness_exc"])
        waited = [c for c in obs.get("cmds", []) if c["c"] == "shutdown" and c.get("done_after") is not None]
        sd_cmds = [c for c in scen["script"] if c["c"] == "shutdown"]
        first = True
        for c, sc in zip(waited, sd_cmds):
            if sc["wait"] and not c.get("raised"):
                nd = [i for i, d in c["done_after"].items() if not d]
                # `first` = this shutdown found the handle open; a shutdown(wait=True) issued after
                # an earlier shutdown is a no-op in executorlib (recorded separately, finding D26)
                tag = "" if first else "_second_shutdown"
                if nd:
                    oracles.append({"oracle": "not_done_after_wait" + tag, "calls": nd})
                if c.get("procs_after"):
                    oracles.append({"oracle": "ghost_process_after_wait" + tag, "procs": c["procs_after"]})
            if not c.get("raised"):
                first = False
        if obs.get("procs_end"):
            oracles.append({"oracle": "ghost_process_at_end", "procs": obs["procs_end"]})
        if obs.get("threads_alive"):
            oracles.append({"oracle": "thread_alive_at_end", "threads": obs["threads_alive"]})
    # ---- function-log oracles (C06, C07, C11)
    enters = {}
    intervals = []
    for line in out.get("fnlog", []):
        p = line.split(" ")
        what, i, pid, n, t = p[0], int(p[1]), int(p[2]), int(p[3]), float(p[4])
        if what == "enter":
            enters.setdefault(i, []).append((pid, n, t))
        else:
            st = [e for e in enters.get(i, []) if e[0] == pid]
            if st:
                intervals.append((i, pid, n, st[-1][2], t))
    info["executed"] = sorted(enters)
    info["final_states"] = {k: v.get("state") for k, v in results.items()}
    # dependency order (C03): every input's function body ended before the dependent's began
    for (i, pid, n, a, b) in intervals:
        for j in deps_of(scen["calls"][i]):
            js = [x for x in intervals if x[0] == j]
            if not js:
                oracles.append({"oracle": "dep_order", "i": i, "dep": j, "detail": "dependent executed but input never executed"})
            elif max(x[4] for x in js) > a:
                oracles.append({"oracle": "dep_order", "i": i, "dep": j, "detail": "input still executing when dependent started"})
    # submit after a completed shutdown must raise (C05)
    closed = False
    for cmd in obs.get("cmds", []):
        if cmd["c"] == "shutdown" and cmd.get("raised") is None and "raised" in cmd:
            closed = True
        elif cmd["c"] == "submit" and closed and cmd.get("ok"):
            oracles.append({"oracle": "accepted_after_shutdown"})
    cancel_ok = set(rep["state"].get("cancelOk", []) if rep.get("state") else [])
    for cmd, sc in zip(obs.get("cmds", []), scen["script"]):
        if cmd["c"] == "cancel" and cmd.get("r") is True:
            cancel_ok.add(sc["i"])
    cancel_ok = sorted(cancel_ok)
    for i in cancel_ok:
        if i in enters:
            oracles.append({"oracle": "cancelled_call_executed", "i": i})
        if not hang and results.get(str(i), {}).get("state") != "cancelled":
            oracles.append({"oracle": "cancelled_call_not_cancelled", "i": i, "got": results.get(str(i))})
    for i, es in enters.items():
        if len(es) > 1:
            oracles.append({"oracle": "call_executed_twice", "i": i, "n": len(es)})
    ex = scen["executor"]
    # per-pid: sequential, counters 0,1,2...
    bypid = {}
    for (i, pid, n, a, b) in sorted(intervals, key=lambda x: x[3]):
        bypid.setdefault(pid, []).append((i, n, a, b))
    for pid, lst in bypid.items():
        for x, y in zip(lst, lst[1:]):
            if y[2] < x[3]:
                oracles.append({"oracle": "worker_overlap", "pid": pid, "calls": [x[0], y[0]]})
        if ex.get("block_allocation"):
            if [n for (_, n, _, _) in lst] != list(range(len(lst))):
                oracles.append({"oracle": "block_counter_sequence", "pid": pid, "got": [n for (_, n, _, _) in lst]})
        else:
            if len(lst) != 1 or lst[0][1] != 0:
                oracles.append({"oracle": "percall_process_reused", "pid": pid, "calls": [x[0] for x in lst]})
    # resource ceiling
    limit = None
    if ex.get("block_allocation"):
        limit, weight = ex.get("max_workers"), (lambda i: 1)
    elif ex.get("max_cores") is not None:
        limit = ex["max_cores"]
        # threads the worker of call i is really started with: its own threads_per_core, else the executor-level value (which the
        # local back end does not hand on)
        exec_thr = 1 if ex.get("backend", "local") == "local" else (ex.get("resource_dict") or {}).get("threads_per_core", 1)
        weight = lambda i: max(1, (scen["calls"][i].get("resource_dict") or {}).get("threads_per_core", exec_thr))  # noqa: E731
    elif ex.get("max_workers") is not None:
        limit, weight = ex["max_workers"], (lambda i: 1)
    if limit is not None:
        pts = []
        for (i, pid, n, a, b) in intervals:
            pts.append((a, 1, weight(i)))
            pts.append((b, 0, -weight(i)))
        cur = peak = 0
        for t, _, w in sorted(pts, key=lambda x: (x[0], x[1])):
            cur += w
            peak = max(peak, cur)
        info["peak"] = peak
        if peak > limit:
            oracles.append({"oracle": "resource_ceiling", "peak": peak, "limit": limit})
    # single worker FIFO (C11)
    if ex.get("block_allocation") and ex.get("max_workers") == 1 and not hang:
        order = [i for (i, pid, n, a, b) in sorted(intervals, key=lambda x: x[3])]
        # calls that carry no futures, or whose futures were all awaited by the script before they were submitted
        awaited, ready_at_submit, k = set(), set(), 0
        for c in scen["script"]:
            if c["c"] == "await":
                awaited.add(c["i"])
            elif c["c"] == "submit":
                if all(j in awaited for j in deps_of(scen["calls"][k])):
                    ready_at_submit.add(k)
                k += 1
        plain = [i for i in order if i in ready_at_submit]
        if plain != sorted(plain):
            oracles.append({"oracle": "single_worker_fifo", "order": order})
    return {"diff": diff, "oracles": oracles, "info": info, "labels": labels}
