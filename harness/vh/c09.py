"""C09 — cache reuse.  Lean: Props/C09.lean (entries_monotone, no_reexecution over the transition
system Cache, any number of sessions) + Props/C08Cache.lean (cache_sound).  Tie: engine C histories
of several sessions (same executor after completion, new executor, new interpreter) on real
executors with the h5py stand-in: trace validation against Cache.step (a hit emits no compute),
witness file of executions, snapshots of the directory between sessions."""
from __future__ import annotations

import json

from .common import Ctx, ast_hashes, run_check
from . import cache_engine as ce

ANCHORS = {
    "executorlib/standalone/serialize.py": ["serialize_funct_h5", "_get_hash"],
    "executorlib/interactive/shared.py": ["_execute_task_with_cache"],
    "executorlib/standalone/hdf.py": ["dump", "get_output"],
}

CORPUS = [
    # D34 witness (fixed): the same call on an executor without and with the dependency resolver, over one directory
    {"workers": 1, "resolver": False, "block": True, "delay": 0.0, "seed": 4, "perturb": {},
     "sessions": [[{"fn": 0, "arg": 1, "kw": None, "session_resolver": False}], [{"fn": 0, "arg": 1, "kw": None, "session_resolver": True}],
                  [{"fn": 0, "arg": 1, "kw": None, "session_resolver": False}, {"fn": 1, "arg": 2, "kw": 3, "session_resolver": False}],
                  [{"fn": 1, "arg": 2, "kw": 3, "session_resolver": True}]], "timeout": 60, "_processes": 1},
    # the same calls in three sessions, the last one in a new interpreter: nothing may execute twice
    {"workers": 2, "resolver": False, "block": True, "delay": 0.3, "seed": 5, "perturb": {},
     "sessions": [[{"fn": 0, "arg": 1, "kw": None}, {"fn": 1, "arg": 2, "kw": 1}], [{"fn": 1, "arg": 2, "kw": 1}, {"fn": 0, "arg": 1, "kw": None}],
                  [{"fn": 0, "arg": 1, "kw": None}, {"fn": 1, "arg": 2, "kw": 1}, {"fn": 2, "arg": 3, "kw": None}]], "timeout": 60, "_processes": 2},
    # same executor: resubmission after completion (pause between the two submissions)
    {"workers": 1, "resolver": True, "block": False, "delay": 0.0, "seed": 6, "perturb": {},
     "sessions": [[{"fn": 2, "arg": 3, "kw": 2, "pause": 400}, {"fn": 2, "arg": 3, "kw": 2}]], "timeout": 60, "_processes": 1},
    # resubmission immediately after result() on a two-worker executor, slow persistence operations
    {"workers": 2, "resolver": False, "block": True, "delay": 1.0, "seed": 7, "perturb": {},
     "sessions": [[{"fn": 1, "arg": 5, "kw": None, "wait": True}, {"fn": 1, "arg": 5, "kw": None, "wait": True}, {"fn": 1, "arg": 5, "kw": None}]],
     "timeout": 60, "_processes": 1},
]


def body(ctx: Ctx):
    m = ctx.model
    replay = json.load(open(ctx.replay_file)) if ctx.replay_file else None
    n_h = 45 if ctx.tier == "quick" else 450
    if replay:
        scens = [dict(replay["scenario"])]
    else:
        scens = [dict(s) for s in CORPUS] + [ce.gen_scenario(ctx.rng, {"nsessions": [2, 2, 3, 3, 4]}) for _ in range(n_h)]
    for k, s in enumerate(scens):
        s.setdefault("_processes", 2 if k % 2 == 0 else 1)
    outs = ce.run_many(scens, jobs=8)
    diffs, fails, validated, hits = [], [], 0, 0
    for s, o in zip(scens, outs):
        j = ce.judge_confirmed(m, s, o)
        ctx.count("labels.lookCancelled", j["info"].get("lookCancelled", 0))
        ncalls = sum(len(x) for x in s["sessions"])
        ctx.case({"workers": s["workers"], "block": s["block"], "sessions": [len(x) for x in s["sessions"]], "processes": s["_processes"]},
                 nontrivial=len(s["sessions"]) >= 2)
        ctx.count("hist.block" if s["block"] else "hist.percall")
        ctx.count("hist.sessions.%d" % len(s["sessions"]))
        ctx.count("hist.processes.%d" % s["_processes"])
        ctx.count("calls", ncalls)
        ctx.count("executions", j["info"].get("executions", 0))
        hits += ncalls - j["info"].get("executions", 0)
        rel = [x for x in j["oracles"] if x["oracle"] in ("cache_entry_removed", "cache_entry_altered", "cache_execution_count", "cache_reexecution_after_completion",
                                                          "cache_key_unstable", "cache_wrong_value", "cache_call_failed", "cache_hang")]
        if rel:
            fails.append((s, j, rel))
        if j["diff"] is not None:
            diffs.append((s, j))
        else:
            validated += 1
    mbad = []
    if not replay:
        # ---- mutable results: what the caller does to a result it received must not reach later submissions
        import os

        from .common import InfraError, finish_json_child, start_json_child

        o = finish_json_child(start_json_child(["vh.cache_mut_runner"]), 400)
        if o is None:
            raise InfraError("mutable-result runner produced no output")
        if not os.path.realpath(o["pin"]).startswith(os.path.realpath(os.environ.get("VERIF_REPO", "/repo")) + os.sep):
            raise InfraError("mutable-result runner imported executorlib from " + o["pin"])
        for c in o["cases"]:
            ctx.case({"mutable_result": [c["mode"], c["submission"]]})
            ctx.count("mutable_result_cases")
        mbad = [c for c in o["cases"] if not c["ok"]]
        ctx.oblige("a call with a mutable result submitted six times in one interpreter (results edited in place by the caller in between) "
                   "returns the function's value every time and executes once", not mbad, "%d cases" % len(o["cases"]))
        if mbad:
            ctx.violation({"kind": "cache_result_shared_with_caller", "failing_input": True},
                          {"what": "a resubmitted call did not return a result equal to the function's value (or was executed again): results handed "
                                   "to the caller are shared between submissions, or the entry was recomputed", "cases": mbad[:4]})
    if not replay and hits < 20:
        from .common import InfraError

        raise InfraError("generator too thin: only %d cache hits exercised" % hits)
    ctx.oblige("correspondence: every worker trace of every session is a run of Cache.step true: a looked-up complete entry is a hit "
               "and is followed by no execution", not diffs, f"{validated} histories accepted, {hits} hits")
    ctx.oblige("oracles: equal results, executions = compute steps of the trace, no *.h5out removed or altered between sessions, "
               "identical calls get identical keys", not fails)
    if fails:
        s, j, rel = fails[0]
        ctx.violation({"kind": "cache_oracle", "oracles": sorted(set(x["oracle"] for x in rel)), "failing_input": True},
                      {"what": "a completed cache entry was recomputed, removed or altered, or the resubmitted call got a different result",
                       "scenario": {k: v for k, v in s.items() if not k.startswith("_")}, "processes": s["_processes"], "oracles": rel, "difference": j["diff"]})
    elif diffs:
        s, j = diffs[0]
        # a rejected trace whose first deviation is a compute after a hit would have been caught by the oracles; no failing input
        ctx.violation({"kind": "correspondence", "failing_input": False},
                      {"what": "worker trace is not a run of the Lean model Cache (theorems entries_monotone / no_reexecution no longer shown to apply); no failing input found",
                       "correspondence": "engine C: vh.cache_engine.map_run + modeld cache_replay (Cache.step)",
                       "theorems_no_longer_applicable": "ExecModel/Props/C09.lean", "scenario": {k: v for k, v in s.items() if not k.startswith("_")},
                       "difference": j["diff"]}, no_input=True)
    return {
        "rule": "session histories: 2-4 sessions of 1-6 calls drawn from a pool of 2-4 distinct calls (so identical calls recur within and across "
                "sessions), 1-3 workers, block and per-call executors, with/without the resolver, every second history split over two "
                "interpreter lifetimes; pauses so that a resubmission falls after completion; non-trivial = >= 2 sessions",
        "traces_validated_against_impl": validated, "cache_hits": hits,
        "ast_hashes": ast_hashes(ANCHORS),
        "trusted_base_extra": ["h5py stand-in, os.rename / os.listdir semantics", "file-mode executor reuse is decided under C13"],
    }


def main(argv=None):
    run_check("C09", body, argv)


if __name__ == "__main__":
    main()
