"""Script-exit scenarios for C02 / C12: the user script ends (normal interpreter exit) while calls are running, after
shutdown(wait=False), after dropping the executor, or with the executor simply left alone.  Expected (C12): the calls
already submitted finish and every worker process exits on its own; (C02): every future completes."""
from __future__ import annotations

import json
import os
import subprocess
import sys
import tempfile
import time
from concurrent.futures import ThreadPoolExecutor

from .common import VERIF, InfraError


def scenarios(rng, n):
    out = []
    base = [
        ({"backend": "local", "block_allocation": False, "max_cores": 2}, "nowait"),
        ({"backend": "local", "block_allocation": False, "max_cores": 2, "disable_dependencies": True}, "drop"),
        ({"backend": "local", "block_allocation": True, "max_workers": 2}, "nowait"),
        ({"backend": "local", "block_allocation": True, "max_workers": 1, "disable_dependencies": True}, "drop"),
        ({"backend": "local", "block_allocation": False, "max_workers": 2}, "leave"),
        ({"backend": "local", "block_allocation": False, "max_cores": 3}, "with_nowait"),
    ]
    for ex, mode in base:
        out.append({"executor": ex, "mode": mode, "n": 2, "hold": 1.0, "chain": False})
    while len(out) < n:
        block = rng.random() < 0.4
        nodeps = rng.random() < 0.4
        ex = {"backend": "local", "block_allocation": block}
        if block:
            ex["max_workers"] = rng.choice([1, 2, 3])
        else:
            ex[rng.choice(["max_cores", "max_workers"])] = rng.choice([1, 2, 3])
        if nodeps:
            ex["disable_dependencies"] = True
        out.append({"executor": ex, "mode": rng.choice(["nowait", "nowait", "drop", "leave", "with_nowait"]), "n": rng.choice([1, 2, 3, 4]),
                    "hold": rng.choice([0.4, 0.8, 1.2]), "chain": (not nodeps) and rng.random() < 0.5})
    return out


def alive_backend(pid):
    try:
        cmd = open("/proc/%d/cmdline" % pid, "rb").read().decode(errors="replace")
        st = open("/proc/%d/stat" % pid).read().split(") ")[-1].split(" ")[0]
    except OSError:
        return False
    return "executorlib" in cmd and "backend" in cmd and st != "Z"


def run_one(scen, slow=False):
    work = tempfile.mkdtemp(prefix="vh_exit_")
    scen = dict(scen, log=os.path.join(work, "log.txt"))
    sp = os.path.join(work, "scen.json")
    json.dump(scen, open(sp, "w"))
    env = dict(os.environ)
    repo = os.environ.get("VERIF_REPO", "/repo")
    env["PYTHONPATH"] = os.pathsep.join([repo, os.path.join(VERIF, "harness"), os.path.join(VERIF, "harness", "standins")])
    t0 = time.monotonic()
    errf = open(os.path.join(work, "stderr.txt"), "w")     # a file, not a pipe: leaked workers would keep a pipe open
    pr = subprocess.Popen([sys.executable, "-m", "vh.exit_runner", sp], env=env, stdout=subprocess.DEVNULL, stderr=errf,
                          stdin=subprocess.DEVNULL, start_new_session=True, text=True)
    script_hang = False
    try:
        pr.wait(timeout=(40 if slow else 12) + scen["n"] * scen["hold"] * 2)
    except subprocess.TimeoutExpired:
        script_hang = True
    errf.close()
    err = open(os.path.join(work, "stderr.txt")).read()
    t_script = time.monotonic() - t0

    def lines():
        try:
            return open(scen["log"]).read().splitlines()
        except OSError:
            return []

    # wait for the calls already submitted to finish, then give the workers time to exit on their own
    deadline = time.monotonic() + scen["n"] * scen["hold"] + (20 if slow else 6)
    while time.monotonic() < deadline and not script_hang:
        ls = lines()
        ent = [l for l in ls if l.startswith("enter ")]
        ex = [l for l in ls if l.startswith("exit ")]
        pids = sorted({int(l.split()[2]) for l in ent})
        if len(ex) >= len(ent) and not any(alive_backend(p) for p in pids) and pr.poll() is not None:
            break
        time.sleep(0.05)
    grace_until = time.monotonic() + (12.0 if slow else 3.0)
    ls = lines()
    pids = sorted({int(l.split()[2]) for l in ls if l.startswith("enter ")})
    ghosts = [p for p in pids if alive_backend(p)]
    while ghosts and time.monotonic() < grace_until:
        time.sleep(0.1)
        ghosts = [p for p in pids if alive_backend(p)]
    ls = lines()
    res = {
        "scenario": {k: v for k, v in scen.items() if k != "log"},
        "pin": next((l.split(" ", 1)[1] for l in ls if l.startswith("pin ")), None),
        "script_hang": script_hang, "script_rc": pr.poll(), "script_s": round(t_script, 2),
        "script_end": "script_end" in ls,
        "entered": sorted(int(l.split()[1]) for l in ls if l.startswith("enter ")),
        "exited": sorted(int(l.split()[1]) for l in ls if l.startswith("exit ")),
        "done": sorted(int(l.split()[1]) for l in ls if l.startswith("done ")),
        "ghosts": ghosts, "stderr_tail": (err or "")[-600:],
    }
    try:
        os.killpg(pr.pid, 9)
    except Exception:  # noqa
        pass
    for p in pids:
        try:
            os.kill(p, 9)
        except Exception:  # noqa
            pass
    import shutil

    shutil.rmtree(work, ignore_errors=True)
    return res


def run(ctx, n):
    scens = scenarios(ctx.rng, n)
    with ThreadPoolExecutor(max_workers=8) as pool:
        outs = list(pool.map(run_one, scens))
    # what looks wrong is decided by time limits: run it again, alone, with longer limits, and judge that run
    reruns = [0]
    for k, o in enumerate(outs):
        lost = (not o["script_hang"]) and o["script_end"] and sorted(o["done"]) != list(range(o["scenario"]["n"]))
        if o["ghosts"] or o["script_hang"] or (lost and o["scenario"]["executor"].get("block_allocation")):
            if reruns[0] < 3:
                reruns[0] += 1
                outs[k] = run_one(scens[k], slow=True)
                ctx.count("exit.rerun_with_longer_limits")
            else:
                outs[k] = None          # not confirmed, not judged (the first three decide)
                ctx.count("exit.unconfirmed_skipped")
    repo = os.path.realpath(os.environ.get("VERIF_REPO", "/repo"))
    bad_ghost, bad_lost = [], []
    outs = [o for o in outs if o is not None]
    for o in outs:
        if not o["pin"] or not os.path.realpath(o["pin"]).startswith(repo + os.sep):
            raise InfraError("exit runner imported executorlib from %s (%s)" % (o["pin"], o["stderr_tail"]))
        ctx.case(o["scenario"])
        ctx.count("exit." + o["scenario"]["mode"])
        if o["ghosts"] or o["script_hang"]:
            bad_ghost.append(o)
        # every submitted call was running or queued when the script ended: all of them finish (C02) unless the script hung
        if not o["script_hang"] and o["script_end"] and sorted(o["done"]) != list(range(o["scenario"]["n"])):
            bad_lost.append(o)
    return outs, bad_ghost, bad_lost


def judge(ctx, prop, outs):
    """C12: ghost worker processes / a script that never ends.  C02: a submitted call whose future never completed."""
    n_bad = 0
    for o in outs:
        block = bool(o["scenario"]["executor"].get("block_allocation"))
        lost = (not o["script_hang"]) and o["script_end"] and sorted(o["done"]) != list(range(o["scenario"]["n"]))
        if prop == "C12" and (o["ghosts"] or o["script_hang"]):
            n_bad += 1
            ctx.violation({"kind": "script_exit_ghost", "failing_input": True},
                          {"what": "user script ended (normal interpreter exit) after %s while calls were running: %s" % (
                              o["scenario"]["mode"], "worker processes still alive after the calls finished" if o["ghosts"] else "the script never ended"),
                           "exit_scenario": o["scenario"], "outcome": o})
        if prop == "C02" and (lost or o["script_hang"]):
            n_bad += 1
            sig = {"kind": "script_exit_lost_future", "failing_input": True}
            if not block and lost:
                sig["region"] = "D30"
            ctx.violation(sig, {"what": "user script ended (normal interpreter exit) after %s: futures of submitted calls never completed" % o["scenario"]["mode"],
                                "exit_scenario": o["scenario"], "outcome": o})
    return n_bad


def decide(ctx, prop, n):
    outs, _, _ = run(ctx, n)
    bad = judge(ctx, prop, outs)
    ctx.oblige("script-exit scenarios (%d): the user script ends while calls run after shutdown(wait=False) / drop / nothing: " % len(outs)
               + ("no worker process outlives its calls, the script ends" if prop == "C12" else
                  "every submitted call completes (block allocation; per-call mode is the listed finding D30)"), bad == 0 or prop == "C02" and not ctx.violations)
    return len(outs)


def replay(ctx, prop, payload):
    o = run_one(payload["exit_scenario"])
    ctx.case(o["scenario"])
    judge(ctx, prop, [o])
    return {"rule": "replay of one script-exit scenario", "outcome": o}
