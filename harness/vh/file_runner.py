"""Scenario runner for the file-based executor (engine C, file mode).
  python -m vh.file_runner <scenario.json> <out.json>
One invocation = one interpreter lifetime = one session of the history: a FileExecutor with the
subprocess back end over scen["cache_dir"], the calls of scen["calls"] submitted in order (futures of
earlier calls of this session as top-level positional / keyword arguments), results awaited, then
shutdown.  All events — persistence operations of this process and of the worker processes (vh_fs),
queue / future events of the loop thread and the user thread — go into the one cross-process log
$EXECUTORLIB_VERIF_FSLOG, linearised by a file lock."""
from __future__ import annotations

import json
import os
import sys
import threading
import time

from vh import runner as R
import vh_fs


def body(x, *vals, witness=None, kwv=None):
    import os as _os
    import time as _t
    if witness:
        fd = _os.open(witness, _os.O_WRONLY | _os.O_APPEND | _os.O_CREAT)
        _os.write(fd, ("%s %s %s %d %.6f\n" % (x, list(vals), kwv, _os.getpid(), _t.monotonic())).encode().replace(b", ", b","))
        _os.close(fd)
    tot = x + sum(v for v in vals if isinstance(v, int))
    if isinstance(kwv, int):
        tot += 7 * kwv
    return tot


def main():
    scen = json.load(open(sys.argv[1]))
    out_path = sys.argv[2]
    threading.current_thread()._vh_main = True
    R._PERTURB["seed"] = scen.get("seed", 0)
    R._PERTURB["probs"] = scen.get("perturb", {})
    R.install()
    orig_log = R.log

    def log2(op, **kw):
        orig_log(op, **kw)
        if op in ("put", "get", "task_done", "set_result", "set_exception", "thread_end", "thread_start", "submit_raised", "get_empty"):
            if op == "get_empty":
                return
            vh_fs.record("ev_" + op, th=R.role(), **{k: v for k, v in kw.items() if k not in ("th", "n", "op")})

    R.log = log2
    import executorlib
    from executorlib.cache import shared as cshared
    from executorlib.cache import subprocess_spawner as csp
    from executorlib.cache.executor import FileExecutor

    o_ser = cshared.serialize_funct_h5

    def ser(*a, **kw):
        key, data = o_ser(*a, **kw)
        vh_fs.record("key", th=R.role(), key=key)
        return key, data

    cshared.serialize_funct_h5 = ser
    o_popen = csp.subprocess.Popen

    class PopenRec(o_popen):
        def __init__(self, command, *a, **kw):
            with vh_fs.locked():
                super().__init__(command, *a, **kw)
                vh_fs.write("popen", th=R.role(), file=os.path.basename(command[-1]), child=self.pid, argv0=command[0])

    csp.subprocess.Popen = PopenRec
    o_remove = os.remove

    def remove(path, *a, **kw):
        if str(path).endswith((".h5in", ".h5ready", ".h5out")):
            with vh_fs.locked():
                o_remove(path, *a, **kw)
                vh_fs.write("remove", th=R.role(), file=os.path.basename(str(path)))
        else:
            o_remove(path, *a, **kw)

    os.remove = remove

    obs = {"pin_parent": executorlib.__file__, "results": {}, "hang": False, "loop_alive_at_end": None}
    done_flag = threading.Event()

    def dump_out():
        tmp = out_path + ".tmp"
        with open(tmp, "w") as fh:
            json.dump({"obs": obs}, fh, default=str)
        os.replace(tmp, out_path)

    def watchdog():
        if not done_flag.wait(scen.get("timeout", 60)):
            obs["hang"] = True
            dump_out()
            os._exit(3)

    threading.Thread(target=watchdog, daemon=True).start()
    vh_fs.record("session_begin", th="main", first=scen.get("first_call_id", 0))
    exe = FileExecutor(cache_directory=scen["cache_dir"], resource_dict={"cwd": scen["cache_dir"]},
                       execute_function=csp.execute_in_subprocess,
                       disable_dependencies=False)
    first = scen.get("first_call_id", 0)
    futs = []
    for k, call in enumerate(scen["calls"]):
        cid = first + k
        args = [futs[j][1] for j in call.get("deps", [])]
        kw = {"witness": scen["witness"]}
        if call.get("kwdep") is not None:
            kw["kwv"] = futs[call["kwdep"]][1]
        R._tls.attempt = cid
        try:
            f = exe.submit(body, call["arg"], *args, **kw)
        finally:
            R._tls.attempt = None
        futs.append((cid, f))
        if call.get("wait"):
            try:
                f.result(timeout=scen.get("call_timeout", 20))
            except BaseException:  # noqa
                pass
        if call.get("pause"):
            time.sleep(call["pause"] / 1000.0)
    deadline = time.monotonic() + scen.get("call_timeout", 20)
    for cid, f in futs:
        try:
            v = f.result(timeout=max(0.05, deadline - time.monotonic()))
            obs["results"][str(cid)] = {"ok": True, "value": v}
        except BaseException as e:  # noqa
            obs["results"][str(cid)] = {"ok": False, "exc": type(e).__name__, "msg": repr(e)[:200]}
    obs["loop_alive_at_end"] = bool(exe._process is not None and exe._process.is_alive())
    vh_fs.record("session_collect_done", th="main")
    try:
        exe.shutdown(wait=True)
        obs["shutdown_raised"] = None
    except BaseException as e:  # noqa
        obs["shutdown_raised"] = type(e).__name__ + ": " + str(e)[:150]
    vh_fs.record("session_end", th="main")
    done_flag.set()
    dump_out()
    os._exit(0)


if __name__ == "__main__":
    main()
