"""C12 — no ghost processes.  Lean: Props/C12.lean (no_ghost_processes: at the end of every maximal
run of a shut-down executor no worker process is alive; joined_worker_has_no_process).  Tie: engine
B: the spawner events (bootup, shutdown) and the stop/acknowledge exchange are part of the validated
trace; /proc is scanned for backend processes at the instant shutdown(wait=True) returns or raises,
and after quiescence for wait=False / drop."""
from __future__ import annotations

from .common import Ctx, run_check
from . import sysprop
from .c02 import invariants_on_traces
from . import exit_check

PROFILE = {"fail": 0.12, "cancel": True, "cancel_p": 0.12, "deps": True, "multi_shutdown": True, "mid_shutdown": False,
           "gate_p": 0.35, "block_res_p": 0.0, "no_final_shutdown_p": 0.25, "timeout": 10}

CORPUS = [
    {"executor": {"backend": "local", "block_allocation": False, "max_cores": 3, "disable_dependencies": False},
     "calls": [{"base": 1, "args": [], "kwargs": {}}, {"base": 10, "args": [{"f": 0}], "kwargs": {}}, {"base": 100, "gate": 0, "args": [], "kwargs": {}}],
     "script": [{"c": "submit"}, {"c": "submit"}, {"c": "submit"}, {"c": "cancel", "i": 1}, {"c": "release", "g": 0},
                {"c": "shutdown", "wait": True, "cancel": False}],
     "gates": [0], "perturb": {}, "seed": 1, "timeout": 10, "settle": 6},
    {"executor": {"backend": "local", "block_allocation": True, "max_workers": 3, "disable_dependencies": True},
     "calls": [{"base": 1, "args": [], "kwargs": {}}, {"base": 10, "args": [], "kwargs": {}}],
     "script": [{"c": "submit"}, {"c": "submit"}, {"c": "shutdown", "wait": False, "cancel": False}],
     "gates": [], "perturb": {}, "seed": 2, "timeout": 10, "settle": 6},
]

REQUIRED = ["wBoot", "wProcStop", "wStopAck", "wJoinExit", "sdJoinThread", "sdFinish", "dLaunch", "dJoinThread"]


def body(ctx: Ctx):
    if ctx.replay_file:
        import json
        payload = json.load(open(ctx.replay_file))
        if "exit_scenario" in payload:
            return exit_check.replay(ctx, "C12", payload)
        return sysprop.replay(ctx, "C12", ctx.replay_file)
    n = 110 if ctx.tier == "quick" else 1100
    res = sysprop.campaign(ctx, "C12", PROFILE, n, CORPUS, REQUIRED)
    checked, stuck = invariants_on_traces(ctx, "C12", PROFILE, 30 if ctx.tier == "quick" else 300)
    ctx.oblige("executable invariants hold on %d replayed traces; %d end shut down with no worker process alive in the model" % (checked, stuck), True)
    res["script_exit_scenarios"] = exit_check.decide(ctx, "C12", 12 if ctx.tier == "quick" else 80)
    res["rule"] = ("engine B: histories of succeeding, raising (12%), cancelled and dependent calls followed by shutdown(wait=True), "
                   "shutdown(wait=False) or nothing (drop, 25%), block executors with 1-3 workers and per-call executors; oracles: no "
                   "descendant process running an executorlib backend script at the instant shutdown(wait=True) returns or raises, none "
                   "after quiescence otherwise, no executor thread alive at the end; raising calls fall into the listed findings D17/D19; "
                   "plus script-exit scenarios: a child interpreter runs a user script that ends (normal interpreter exit) while calls "
                   "are running after shutdown(wait=False) / del / nothing / a with-block whose body shut down without waiting; the "
                   "worker pids are scanned until the calls have finished")
    res["trusted_base_extra"] = sysprop.TRUST + ["/proc scan for descendants whose command line contains an executorlib backend script"]
    return res


def main(argv=None):
    run_check("C12", body, argv)


if __name__ == "__main__":
    main()
