"""C16 — launch command lines.  Engine A: the real generators / spawners / bootup glue / argv parser
against the Lean model (`Cmd`), with the Lean SPEC parsers (`Launcher`) as the oracle that turns a
difference into a failing input."""
from __future__ import annotations

import os
import sys

from .common import Ctx, InfraError, ast_hashes, run_check

ANCHORS = {
    "executorlib/standalone/interactive/spawner.py": [
        "generate_mpiexec_command",
        "generate_slurm_command",
        "SrunSpawner",
        "MpiExecSpawner",
        "SubprocessSpawner",
    ],
    "executorlib/standalone/interactive/communication.py": ["interface_bootup"],
    "executorlib/standalone/interactive/backend.py": ["parse_arguments", "update_default_dict_from_arguments"],
    "executorlib/interactive/shared.py": ["_get_backend_path"],
    "executorlib/cache/shared.py": ["_get_execute_command"],
}

NATS = [0, 1, 2, 3, 4, 7, 9, 10, 11, 16, 99, 100, 101, 128, 1000, 65536, 10**9]
CWDS = [None, "/tmp", "/a b/c d", "rel/dir", "/with'quote", '/with"dq', "-dash", "--host", "/ünï/ç", "", " ", "/x=y", "-D"]
OPAQUE = ["--account=test", "--job-name=executorlib", "-p", "--exclusive", "--mem=4G", "--constraint=a b", "-v", "--x", "-q=1", "--time=00:10:00"]
NONOPAQUE = ["-n", "4", "--ntasks=3", "-c", "plain", "--cpus-per-task=2", "-D", "--chdir=/q", "--oversubscribe", "-n7", "", "--gpus-per-task=2"]


def gen_req(rng, opaque_only=True):
    def nat(lo=0):
        r = rng.random()
        if r < 0.6:
            return max(lo, rng.choice(NATS[:9]))
        if r < 0.9:
            return max(lo, rng.choice(NATS))
        return max(lo, rng.randrange(0, 10**6))

    pool = OPAQUE if opaque_only else OPAQUE + NONOPAQUE
    return {
        "cores": nat(),
        "cwd": rng.choice(CWDS),
        "threads": nat(),
        "gpus": nat(),
        "oversub": rng.random() < 0.5,
        "extra": [rng.choice(pool) for _ in range(rng.choice([0, 0, 1, 2, 3]))],
    }


class PopenRecorder:
    calls = []

    def __init__(self, args=None, cwd=None, **kw):
        PopenRecorder.calls.append({"args": list(args), "cwd": cwd, "kw": sorted(kw)})

    def poll(self):
        return 0

    def communicate(self):
        return (None, None)

    def terminate(self):
        pass

    def wait(self):
        return 0


def body(ctx: Ctx):
    from executorlib.standalone.interactive import spawner as sp
    from executorlib.standalone.interactive import communication as comm
    from executorlib.standalone.interactive.backend import parse_arguments
    from executorlib.interactive import shared as ishared
    from executorlib.cache import shared as cshared

    m = ctx.model
    n_direct = 1500 if ctx.tier == "quick" else 20000
    n_boot = 150 if ctx.tier == "quick" else 1500
    diffs = []

    def report(kind, case, impl, model, spec=None):
        diffs.append({"kind": kind, "case": case, "impl": impl, "model": model, "spec": spec})

    # ---- 1. generate_slurm_command / generate_mpiexec_command directly ---------------------
    cmd = [sys.executable, "/x/interactive_serial.py", "--zmqport", "5555"]
    corpus = [
        {"cores": 1, "cwd": None, "threads": 2, "gpus": 0, "oversub": False, "extra": []},  # D6 witness
        {"cores": 2, "cwd": os.path.abspath("."), "threads": 1, "gpus": 1, "oversub": True, "extra": ["--account=test", "--job-name=executorlib"]},
        {"cores": 2, "cwd": "/a b", "threads": 3, "gpus": 1, "oversub": True, "extra": ["--x=1"]},
    ]
    cases = corpus + [gen_req(ctx.rng, opaque_only=(i % 4 != 3)) for i in range(n_direct)]
    reqs_model = [dict(op="srun_prefix", eq=True, **c) for c in cases]
    model_out = m.ask_many(reqs_model)
    impl_out = []
    for c in cases:
        impl_out.append(
            sp.generate_slurm_command(
                cores=c["cores"], cwd=c["cwd"], threads_per_core=c["threads"], gpus_per_core=c["gpus"],
                openmpi_oversubscribe=c["oversub"], slurm_cmd_args=list(c["extra"]),
            )
        )
    spec_out = m.ask_many([dict(op="srun_spec_ok", argv=io + cmd, cmd=cmd, **c) for c, io in zip(cases, impl_out)])
    n_dom = 0
    for c, io, mo, so in zip(cases, impl_out, model_out, spec_out):
        ctx.case({"srun": c}, nontrivial=(c["threads"] > 1 or c["gpus"] > 0 or c["cwd"] is not None))
        ctx.count("srun.threads>1" if c["threads"] > 1 else "srun.threads<=1")
        ctx.count("srun.gpus>0" if c["gpus"] > 0 else "srun.gpus=0")
        ctx.count("srun.cwd" if c["cwd"] is not None else "srun.nocwd")
        ctx.count("srun.in_domain" if so["in_domain"] else "srun.out_of_domain")
        n_dom += so["in_domain"]
        if io != mo:
            report("srun_prefix", c, io, mo, so)
        elif so["in_domain"] and not so["ok"]:
            # model and implementation agree but the SPEC rejects: theorem srun_exact would be false
            raise InfraError(f"model srunPrefix(eq=true) contradicts proved theorem on {c}")
    mcases = [(rng_c, o) for rng_c in NATS for o in (False, True)] + [
        (ctx.rng.randrange(0, 10**6), ctx.rng.random() < 0.5) for _ in range(200)
    ]
    mo_all = m.ask_many([dict(op="mpiexec_prefix", cores=c, oversub=o) for c, o in mcases])
    for (c, o), mo in zip(mcases, mo_all):
        io = sp.generate_mpiexec_command(cores=c, openmpi_oversubscribe=o)
        ctx.case({"mpiexec": [c, o]}, nontrivial=(c != 1))
        ctx.count("mpiexec.cores=1" if c == 1 else "mpiexec.cores!=1")
        if io != mo:
            so = m.ask("mpi_spec_ok", cores=c, oversub=o, argv=io + cmd, cmd=cmd)
            report("mpiexec_prefix", {"cores": c, "oversub": o}, io, mo, so)

    # ---- 1b. the command is a function of the request alone: the same requests on a machine that offers this process ONE cpu
    # (affinity mask as under taskset / a cgroup) and with scheduler variables in the environment
    import contextlib

    @contextlib.contextmanager
    def narrow_machine():
        old_aff = os.sched_getaffinity(0)
        old_env = {k: os.environ.get(k) for k in ("SLURM_NTASKS", "SLURM_CPUS_PER_TASK", "OMP_NUM_THREADS", "OMPI_COMM_WORLD_SIZE")}
        try:
            os.sched_setaffinity(0, {min(old_aff)})
            os.environ.update({"SLURM_NTASKS": "1", "SLURM_CPUS_PER_TASK": "1", "OMP_NUM_THREADS": "1", "OMPI_COMM_WORLD_SIZE": "1"})
            yield
        finally:
            os.sched_setaffinity(0, old_aff)
            for k, v in old_env.items():
                if v is None:
                    os.environ.pop(k, None)
                else:
                    os.environ[k] = v

    with narrow_machine():
        for (c, o), mo in list(zip(mcases, mo_all))[:80]:
            io = sp.generate_mpiexec_command(cores=c, openmpi_oversubscribe=o)
            ctx.case({"mpiexec_one_cpu": [c, o]}, nontrivial=(c != 1))
            ctx.count("mpiexec.one_cpu_machine")
            if io != mo:
                so = m.ask("mpi_spec_ok", cores=c, oversub=o, argv=io + cmd, cmd=cmd)
                report("mpiexec_prefix", {"cores": c, "oversub": o, "machine": "affinity of one cpu, scheduler variables set"}, io, mo, so)
        for c, mo in list(zip(cases, model_out))[:120]:
            io = sp.generate_slurm_command(cores=c["cores"], cwd=c["cwd"], threads_per_core=c["threads"], gpus_per_core=c["gpus"],
                                           openmpi_oversubscribe=c["oversub"], slurm_cmd_args=list(c["extra"]))
            ctx.count("srun.one_cpu_machine")
            if io != mo:
                so = m.ask("srun_spec_ok", argv=io + cmd, cmd=cmd, **c)
                report("srun_prefix", dict(c, machine="affinity of one cpu, scheduler variables set"), io, mo, so)

    # ---- 2. through the spawner classes and interface_bootup (glue) ------------------------
    import socket

    real_popen = sp.subprocess.Popen
    real_os = None
    host = socket.gethostname()
    boot_cases = 0
    try:
        sp.subprocess.Popen = PopenRecorder
        from .common import OsProxy
        real_os = getattr(sp, "os", None)
        if real_os is not None:
            sp.os = OsProxy()       # fix 24eb13b: the spawner creates the working directory; recorded, not done
        for i in range(n_boot):
            c = corpus[i] if i < len(corpus) else gen_req(ctx.rng, opaque_only=(i % 5 != 4))
            kind = ctx.rng.choice(["srun", "mpiexec"])
            hl = ctx.rng.choice([None, False, True])
            PopenRecorder.calls.clear()
            base = [sys.executable, "/x/interactive_%s.py" % ("parallel" if c["cores"] > 1 else "serial")]
            if kind == "srun":
                spawner = sp.SrunSpawner(cwd=c["cwd"], cores=c["cores"], threads_per_core=c["threads"],
                                         gpus_per_core=c["gpus"], openmpi_oversubscribe=c["oversub"],
                                         slurm_cmd_args=list(c["extra"]))
            else:
                spawner = sp.MpiExecSpawner(cwd=c["cwd"], cores=c["cores"], openmpi_oversubscribe=c["oversub"],
                                            threads_per_core=c["threads"])
            interface = comm.interface_bootup(command_lst=list(base), connections=spawner, hostname_localhost=hl)
            try:
                if len(PopenRecorder.calls) != 1:
                    report("bootup_popen_count", c, len(PopenRecorder.calls), 1)
                    continue
                call = PopenRecorder.calls[0]
                argv = call["args"]
                port = argv[-1]
                h = None if hl else host
                wc = m.ask("worker_cmd", python=base[0], script=base[1], host=h, port=port)
                if kind == "srun":
                    pre = m.ask("srun_prefix", eq=True, **c)
                else:
                    pre = m.ask("mpiexec_prefix", cores=c["cores"], oversub=c["oversub"])
                expect = pre + wc
                boot_cases += 1
                ctx.case({"boot": kind, "req": c, "hostname_localhost": hl}, nontrivial=True)
                ctx.count(f"boot.{kind}")
                if argv != expect or call["cwd"] != c["cwd"]:
                    if kind == "srun":
                        so = m.ask("srun_spec_ok", argv=argv, cmd=wc, **c)
                    else:
                        so = m.ask("mpi_spec_ok", cores=c["cores"], oversub=c["oversub"], argv=argv, cmd=wc)
                    report(f"bootup_{kind}", {"req": c, "hostname_localhost": hl},
                           {"argv": argv, "cwd": call["cwd"]}, {"argv": expect, "cwd": c["cwd"]}, so)
                # worker-side parser on the generated argv: real function vs model vs the bound values
                flags_in_pre = any(t in ("--host", "--zmqport") for t in pre + base)
                got = parse_arguments(list(argv)) if True else None
                mp = m.ask("parse_args", argv=argv)
                want = {"host": h if h is not None else "localhost", "zmqport": port}
                if got != mp:
                    report("parse_arguments_vs_model", {"argv": argv}, got, mp)
                elif not flags_in_pre and got != want:
                    report("parse_roundtrip", {"argv": argv}, got, want, {"in_domain": True, "ok": False})
            finally:
                interface.shutdown(wait=True)
        # ---- 2b. the composition execute_parallel_tasks makes, repeated in ONE process: interface_bootup(command_lst=
        # _get_backend_path(cores), ...) for worker after worker — each launch is prefix ++ the worker command of THAT launch
        from executorlib.interactive import shared as ishared2

        for cores in [2, 2, 1, 3, 2, 1, 2]:
            PopenRecorder.calls.clear()
            base = ishared2._get_backend_path(cores=cores)
            base_copy = list(base)
            spawner = sp.MpiExecSpawner(cwd=None, cores=cores, openmpi_oversubscribe=False, threads_per_core=1)
            interface = comm.interface_bootup(command_lst=base, connections=spawner, hostname_localhost=None)
            try:
                if len(PopenRecorder.calls) != 1:
                    report("bootup_popen_count", {"cores": cores}, len(PopenRecorder.calls), 1)
                    continue
                argv = PopenRecorder.calls[0]["args"]
                wc = m.ask("worker_cmd", python=base_copy[0], script=base_copy[1], host=host, port=argv[-1])
                expect = m.ask("mpiexec_prefix", cores=cores, oversub=False) + wc
                boot_cases += 1
                ctx.case({"boot_sequence": cores}, nontrivial=True)
                ctx.count("boot.sequence_through_get_backend_path")
                if argv != expect:
                    so = m.ask("mpi_spec_ok", cores=cores, oversub=False, argv=argv, cmd=wc)
                    report("bootup_mpiexec", {"req": {"cores": cores}, "launch_in_this_process": boot_cases, "via": "_get_backend_path"},
                           {"argv": argv}, {"argv": expect}, so)
                got = parse_arguments(list(argv))
                if got != {"host": host, "zmqport": argv[-1]}:
                    report("parse_roundtrip", {"argv": argv}, got, {"host": host, "zmqport": argv[-1]}, {"in_domain": True, "ok": False})
            finally:
                interface.shutdown(wait=True)
    finally:
        sp.subprocess.Popen = real_popen
        if real_os is not None:
            sp.os = real_os

    # ---- 3. parse_arguments on arbitrary argv (model correspondence incl. the IndexError branch)
    toks = ["--host", "--zmqport", "a", "b", "1234", "localhost", "-n", "python"]
    for _ in range(400 if ctx.tier == "quick" else 5000):
        argv = [ctx.rng.choice(toks) for _ in range(ctx.rng.randrange(0, 7))]
        try:
            got = parse_arguments(list(argv))
        except IndexError:
            got = "IndexError"
        mp = m.ask("parse_args", argv=argv)
        if isinstance(mp, dict) and mp.get("zmqport") is None:
            mp = {"host": mp["host"]}
        ctx.case({"argv": argv}, nontrivial=("--host" in argv or "--zmqport" in argv))
        ctx.count("parse.indexerror" if got == "IndexError" else "parse.ok")
        if got != mp:
            # Cmd.parseArgs is what theorem parse_roundtrip is about: on a command line that names a port the worker must
            # recover exactly what the model recovers, so such a difference is a failing input, not only a broken tie
            well_formed = isinstance(mp, dict) and "zmqport" in mp
            report("parse_arguments_vs_model", {"argv": argv}, got, mp, {"in_domain": well_formed, "ok": False})
    # the same parser called several times in one process (in-process workers, tests): every call stands alone
    seq = [["--zmqport", "1111", "--host", "node-a"], ["--zmqport", "2222"], ["--host", "node-b", "--zmqport", "3333"], ["--zmqport", "4444"]]
    firsts = []
    for argv in seq:
        got = parse_arguments(list(argv))
        mp = m.ask("parse_args", argv=argv)
        firsts.append((argv, dict(got) if isinstance(got, dict) else got, got, mp))
        ctx.case({"argv_sequence": argv}, nontrivial=True)
        if got != mp:
            report("parse_arguments_sequence", {"argv": argv, "earlier": [a for a, _, _, _ in firsts[:-1]]}, got, mp, {"in_domain": True, "ok": False})
    for argv, snap, obj, mp in firsts:
        if obj != snap:
            report("parse_arguments_result_changed_later", {"argv": argv}, obj, snap, {"in_domain": True, "ok": False})

    # ---- 4. worker script choice and file-mode command -------------------------------------
    import importlib.util

    real_find = importlib.util.find_spec
    try:
        ishared.importlib.util.find_spec = lambda name, *a, **k: object() if name == "mpi4py" else real_find(name, *a, **k)
        for cores in [1, 2, 3, 10, 100]:
            io = ishared._get_backend_path(cores=cores)
            want = [sys.executable, os.path.join(os.path.dirname(ishared.__file__), "..", "backend",
                    "interactive_parallel.py" if cores > 1 else "interactive_serial.py")]
            want[1] = os.path.abspath(want[1])
            ctx.case({"backend_path": cores})
            if io != want or not os.path.exists(io[1]):
                report("backend_path", {"cores": cores}, io, want, {"in_domain": True, "ok": False})
            fo = cshared._get_execute_command(file_name="/c/f.h5in", cores=cores)
            mo = m.ask("file_cmd", python=sys.executable,
                       serial=os.path.abspath(os.path.join(os.path.dirname(cshared.__file__), "..", "backend", "cache_serial.py")),
                       parallel=os.path.abspath(os.path.join(os.path.dirname(cshared.__file__), "..", "backend", "cache_parallel.py")),
                       file="/c/f.h5in", cores=cores)
            ctx.case({"file_cmd": cores})
            if fo != mo:
                so = m.ask("mpi_spec_ok", cores=cores, oversub=False, argv=fo, cmd=mo[-3:])
                report("file_cmd", {"cores": cores}, fo, mo, so)
    finally:
        ishared.importlib.util.find_spec = real_find

    # ---- decision ---------------------------------------------------------------------------
    ctx.oblige("correspondence: generate_slurm_command = Cmd.srunPrefix true", not any(d["kind"] == "srun_prefix" for d in diffs))
    ctx.oblige("correspondence: generate_mpiexec_command = Cmd.mpiexecPrefix", not any(d["kind"] == "mpiexec_prefix" for d in diffs))
    ctx.oblige("correspondence: spawner+interface_bootup argv/cwd = prefix ++ Cmd.workerCmd", not any(d["kind"].startswith("bootup") for d in diffs))
    ctx.oblige("correspondence: parse_arguments = Cmd.parseArgs", not any(d["kind"].startswith("parse") for d in diffs))
    ctx.oblige("correspondence: backend script choice / file-mode command", not any(d["kind"] in ("backend_path", "file_cmd") for d in diffs))
    if n_dom < 100 or boot_cases < 50:
        raise InfraError(f"generator too thin: in-domain srun cases {n_dom}, boot cases {boot_cases}")

    # a difference is a violation; the SPEC oracle says whether we hold a failing input
    seen = set()
    for d in diffs:
        spec = d.get("spec") or {}
        failing = bool(spec.get("in_domain")) and not spec.get("ok", True)
        sig = {"kind": d["kind"], "failing_input": failing}
        if d["kind"] in ("srun_prefix", "bootup_srun") and failing:
            req = d["case"] if d["kind"] == "srun_prefix" else d["case"]["req"]
            impl_argv = d["impl"] if d["kind"] == "srun_prefix" else d["impl"]["argv"]
            if req["threads"] > 1 and ("--cpus-per-task" + str(req["threads"])) in impl_argv:
                sig["witness"] = "cpus-per-task-without-equals"
        key = (d["kind"], failing, sig.get("witness"))
        if key in seen:
            continue
        seen.add(key)
        if failing:
            ctx.violation(sig, {"what": "implementation output rejected by the Lean SPEC parser (theorem statement fails on this input)", **d})
    if diffs and not any(v for v in ctx.violations) and not ctx.known_hits:
        d = diffs[0]
        ctx.violation({"kind": d["kind"], "failing_input": False},
                      {"what": "correspondence broken, SPEC oracle found no failing input",
                       "broken": "correspondence " + d["kind"], "theorems_no_longer_tied": ["ExecModel.C16.srun_exact", "ExecModel.C16.mpiexec_exact", "ExecModel.C16.parse_roundtrip"], **d},
                      no_input=True)
    return {
        "rule": "cases = resource specs (cores/threads/gpus from boundary constants and random naturals, cwd strings with spaces/quotes/dashes, 0-3 extra args; 3 of 4 inside the theorem's domain) fed to generate_slurm_command/generate_mpiexec_command, the Srun/MpiExec spawner classes through interface_bootup with Popen recorded, and parse_arguments; non-trivial = at least one optional option present / flag present; distinct = sha1 of the canonical case",
        "differences": len(diffs),
        "in_domain_srun_cases": n_dom,
        "boot_cases": boot_cases,
        "ast_hashes": ast_hashes(ANCHORS),
        "trusted_base_extra": ["SPEC lean/ExecModel/Launcher.lean: srun/mpiexec option grammar (no launcher installed in the sandbox)"],
    }


def main(argv=None):
    run_check("C16", body, argv)


if __name__ == "__main__":
    main()
