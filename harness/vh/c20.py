"""C20 — plot mode.  Lean: Props/C20.lean + Proofs/PlotProofs.lean (boxes_eq_calls, edges_per_argument,
value_nodes, node_ids over the model Plot.graphOf; counterexample for the hash-keyed table D16).
Tie: real Executor(plot_dependency_graph=True) on generated acyclic programs with recording
stand-ins for networkx / IPython / matplotlib; the recorded graph is compared with Plot.graphOf;
a side-effect witness shows that nothing is executed; every returned future is done at once."""
from __future__ import annotations

import json
import os
import tempfile

from .common import Ctx, InfraError, ast_hashes, descendants, run_check

ANCHORS = {
    "executorlib/interactive/executor.py": ["ExecutorWithDependencies"],
    "executorlib/standalone/plot.py": ["generate_nodes_and_edges", "generate_task_hash", "draw"],
}

VALUES = [1, 2, "a", "x y", (1, 2), 3.5, None, [1, 2], {"k": 1}, [], True]
FN_NAMES = ["add", "mul", "add", "collect", "noop"]


def gen_prog(rng):
    n = rng.choice([1, 2, 3, 4, 5, 6, 8])
    prog = []
    for k in range(n):
        if k > 0 and rng.random() < 0.25:
            prog.append(json.loads(json.dumps(rng.choice(prog))))     # a repeated identical call
            continue

        def arg():
            r = rng.random()
            if k > 0 and r < 0.4:
                return {"f": rng.randrange(k)}
            if k > 0 and r < 0.55:
                return {"fs": [rng.randrange(k) for _ in range(rng.choice([0, 1, 2, 3]))]}
            return {"val": rng.randrange(len(VALUES))}

        prog.append({"fn": rng.choice(FN_NAMES), "args": [arg() for _ in range(rng.choice([0, 1, 1, 2, 3]))],
                     "kwargs": [["k%d" % i, arg()] for i in range(rng.choice([0, 0, 1, 2]))]})
    return prog


def run_real(prog, witness, inner_shutdown=None):
    """Returns (recorded graph, done flags, error).  inner_shutdown: None | True | False = an explicit exe.shutdown(wait=...) inside the
    with-block after the last submit (legal, repeatable: the graph drawn on leaving the block is the same)."""
    import executorlib
    import networkx

    fns = {}

    def mk(name):
        if name not in fns:
            g = {"__name__": "__main__", "WITNESS": witness}
            exec("def %s(*a, **k):\n    open(WITNESS, 'a').write('%s\\n')\n    return 0\n" % (name, name), g)
            fns[name] = g[name]
        return fns[name]

    networkx.RECORDED.clear()
    futs, done = [], []
    try:
        with executorlib.Executor(backend="local", plot_dependency_graph=True) as exe:
            for c in prog:
                def conv(a):
                    if "f" in a:
                        return futs[a["f"]]
                    if "fs" in a:
                        return [futs[j] for j in a["fs"]]
                    return VALUES[a["val"]]
                f = exe.submit(mk(c["fn"]), *[conv(a) for a in c["args"]], **{k: conv(a) for k, a in c["kwargs"]})
                futs.append(f)
                done.append(bool(f.done()))
            if inner_shutdown is not None:
                exe.shutdown(wait=inner_shutdown)
    except Exception as e:  # noqa
        return None, done, "%s: %s" % (type(e).__name__, str(e)[:100])
    if len(networkx.RECORDED) != 1:
        return None, done, "graphs drawn: %d" % len(networkx.RECORDED)
    return networkx.RECORDED[0], done, None


def to_model(prog):
    def conv(a):
        if "f" in a:
            return {"f": a["f"]}
        if "fs" in a:
            # an empty Python list is a plain value (drawn as a value node "[]"), not a list of futures
            return {"fs": a["fs"]} if a["fs"] else {"v": "[]"}
        return {"v": str(VALUES[a["val"]])}
    return [{"fn": c["fn"], "args": [conv(a) for a in c["args"]], "kwargs": [[k, conv(a)] for k, a in c["kwargs"]]} for c in prog]


def body(ctx: Ctx):
    m = ctx.model
    replay_inner = None
    if ctx.replay_file:
        rp = json.load(open(ctx.replay_file))
        progs = [rp["prog"]]
        replay_inner = rp.get("explicit_shutdown_in_block")
    else:
        n = 300 if ctx.tier == "quick" else 3000
        progs = [
            [{"fn": "add", "args": [{"val": 0}], "kwargs": [["b", {"val": 1}]]}, {"fn": "add", "args": [{"val": 0}], "kwargs": [["b", {"val": 1}]]},
             {"fn": "add", "args": [{"f": 0}], "kwargs": [["b", {"f": 1}]]}, {"fn": "collect", "args": [{"fs": [0, 2]}], "kwargs": []}],   # D16 witness
        ] + [gen_prog(ctx.rng) for _ in range(n)]
    model = m.ask_many([dict(op="plot_graph", prog=to_model(p)) for p in progs])
    work = tempfile.mkdtemp(prefix="vh_c20_")
    witness = os.path.join(work, "witness")
    open(witness, "w").close()
    diffs, bad = [], []
    try:
        for k, (p, mo) in enumerate(zip(progs, model)):
            # every fifth program: an explicit shutdown (wait=True / False alternating) inside the with-block before it is left
            inner = None if (k % 5 != 4 or ctx.replay_file) else bool(k % 2)
            if ctx.replay_file and replay_inner is not None:
                inner = replay_inner
            if inner is not None:
                ctx.count("prog.explicit_shutdown_in_block")
            g, done, err = run_real(p, witness, inner_shutdown=inner)
            rep = any(p[i] == p[j] for i in range(len(p)) for j in range(i))
            ctx.case({"prog": p}, nontrivial=len(p) >= 2)
            ctx.count("prog.calls.%d" % len(p))
            if rep:
                ctx.count("prog.repeated_identical_call")
            if any("fs" in a for c in p for a in c["args"] + [x[1] for x in c["kwargs"]]):
                ctx.count("prog.list_of_futures")
            if err or not all(done):
                bad.append({"prog": p, "error": err, "done_at_submit": done, "explicit_shutdown_in_block": inner})
                continue
            nodes = [{"id": n["id"], "name": n["label"], "shape": n["shape"]} for n in g["nodes"]]
            edges = [{"start": e["start"], "end": e["end"], "label": e["label"]} for e in g["edges"]]
            if nodes != mo["nodes"] or edges != mo["edges"]:
                diffs.append({"prog": p, "explicit_shutdown_in_block": inner, "impl": {"nodes": nodes, "edges": edges}, "model": mo})
        executed = open(witness).read().splitlines()
        procs = [(pid, cmd) for pid, cmd, st in descendants() if "/backend/" in cmd and "executorlib" in cmd]
    finally:
        import shutil

        shutil.rmtree(work, ignore_errors=True)
    ctx.oblige("plot mode: submit never raises, every returned future is done at once, exactly one graph is drawn on exit", not bad,
               f"{len(progs)} programs")
    ctx.oblige("correspondence: graph handed to the drawing library = Plot.graphOf prog (nodes and edges, ids, names, shapes, labels)",
               not diffs)
    ctx.oblige("nothing executed: side-effect witness empty, no worker process started", not executed and not procs,
               f"witness lines={len(executed)}, worker processes={len(procs)}")
    if bad:
        ctx.violation({"kind": "plot_submit", "failing_input": True},
                      {"what": "plot mode: submit raised / a future was not done / no graph was drawn", **bad[0]})
    if diffs:
        d = diffs[0]
        nb = sum(1 for n in d["impl"]["nodes"] if n["shape"] == "box")
        ctx.violation({"kind": "plot_graph", "failing_input": True},
                      {"what": "the drawn graph differs from Plot.graphOf (theorems boxes_eq_calls / edges_per_argument): %d box nodes for %d calls"
                               % (nb, len(d["prog"])), **d})
    if executed or procs:
        ctx.violation({"kind": "plot_executed", "failing_input": True},
                      {"what": "a submitted function was executed in plot mode", "witness": executed[:5], "procs": procs[:3]})
    return {
        "rule": "acyclic programs of 1-8 calls: arguments are plain values (ints, strings, tuples, floats, None, lists, dicts, the empty list), "
                "futures of earlier calls, lists of futures (0-3 elements), positionally and as keywords; 25% of the calls repeat an earlier "
                "call identically; real Executor(plot_dependency_graph=True) with recording drawing stand-ins; non-trivial = >= 2 calls",
        "differences": len(diffs),
        "ast_hashes": ast_hashes(ANCHORS),
        "trusted_base_extra": ["recording stand-ins for networkx.DiGraph / nx_agraph.to_agraph / IPython.display / matplotlib.pyplot (nothing is rendered)",
                               "lists mixing futures and other values are outside the generator: their node name contains object addresses"],
    }


def main(argv=None):
    run_check("C20", body, argv)


if __name__ == "__main__":
    main()
