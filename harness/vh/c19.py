"""C19 — fail fast.  Lean: Props/C19.lean (accepted_runs: outside the listed regions an accepted
configuration is Runnable; rejects_*; accepted_config_runs_call: a runnable plan runs the trivial
call and shuts down — composition with the progress theorems of Sys) over the decision-table model
Config.  Tie: configurations drawn from the option product are executed on the real
executorlib.Executor (own process each, trivial call, time limits); accept/reject, the exception
class, and — for accepted ones — whether the call ran and shutdown returned are compared with
Config.construct / submitCheck / Runnable / regionOf."""
from __future__ import annotations

import itertools
import json
import os
import subprocess
import sys
import tempfile
from concurrent.futures import ThreadPoolExecutor

from .common import VERIF, Ctx, InfraError, ast_hashes, run_check

ANCHORS = {
    "executorlib/__init__.py": ["Executor"],
    "executorlib/interactive/executor.py": ["create_executor", "ExecutorWithDependencies"],
    "executorlib/cache/executor.py": ["create_file_executor", "FileExecutor"],
    "executorlib/standalone/inputcheck.py": ["validate_number_of_cores", "check_resource_limits", "check_resource_dict_is_empty",
                                              "check_resource_dict", "check_gpus_per_worker", "check_command_line_argument_lst",
                                              "check_init_function", "check_pmi", "check_refresh_rate", "check_plot_dependency_graph",
                                              "check_max_workers_and_cores", "check_hostname_localhost"],
    "executorlib/base/executor.py": ["ExecutorBase"],
    "executorlib/interactive/shared.py": ["ExecutorBroker", "InteractiveStepExecutor", "InteractiveExecutor", "_wait_for_free_slots"],
}

REGION_ID = {"d20KeysNotAccepted": "D20", "d23CwdMissing": "D23-flux", "d21NoMpi": "D21"}


def run_cfg(o, slow=False):
    if slow:
        o = dict(o, result_timeout=24, shutdown_timeout=24)
    fd, p = tempfile.mkstemp(suffix=".json", prefix="vh_cfg_")
    os.write(fd, json.dumps(o).encode())
    os.close(fd)
    try:
        from .common import finish_json_child, start_json_child

        limit = 300 if o.get("result_timeout", 0) >= 60 else (160 if slow else 60)
        o2 = finish_json_child(start_json_child(["vh.config_runner", p]), limit)
        return o2 if o2 is not None else {"error": "no output"}
    finally:
        os.unlink(p)


def gen_rd(rng, p=0.25):
    d = {}
    if rng.random() < p:
        d["cores"] = rng.choice([0, 1, 1, 2, 2, 3])
    if rng.random() < p:
        d["threads_per_core"] = rng.choice([0, 1, 2, 2, 3])
    if rng.random() < p * 0.5:
        d["gpus_per_core"] = rng.choice([0, 1])
    if rng.random() < p:
        d["cwd"] = rng.choice(["none", "ok", "ok", "missing"])
    if rng.random() < p * 0.5:
        d["openmpi_oversubscribe"] = rng.random() < 0.5
    if rng.random() < p * 0.5:
        d["slurm_cmd_args"] = rng.choice(["empty", "nonempty"])
    if rng.random() < p * 0.3:
        d["unknown_key"] = True
    return d


def gen_cfg(rng):
    o = {"backend": rng.choice(["local"] * 12 + ["slurm_allocation"] * 5 + ["flux_allocation", "local_submission", "flux_submission", "slurm_submission", "other"]),
         "block_allocation": rng.random() < 0.4, "disable_dependencies": rng.random() < 0.4}
    r = rng.random()
    if r < 0.3:
        o["max_workers"] = rng.choice([0, 1, 1, 2, 2, 3])
    if rng.random() < 0.35:
        o["max_cores"] = rng.choice([0, 1, 2, 2, 3, 4, 4, 6])
    if rng.random() < 0.5:
        o["rd"] = gen_rd(rng)
    if rng.random() < (0.08 if o["block_allocation"] else 0.45):
        o["percall"] = gen_rd(rng, 0.3)
    if rng.random() < (0.3 if o["block_allocation"] else 0.03):
        o["init_function"] = True
    for k, pr in (("fn_has_resource_dict_param", 0.05), ("flux_executor", 0.04), ("nesting", 0.05),
                  ("pysqa_config_directory", 0.05), ("plot", 0.08), ("cache_directory", 0.1)):
        if rng.random() < pr:
            o[k] = True
    if rng.random() < 0.1:
        o["hostname_localhost"] = rng.random() < 0.5
    if rng.random() < (0.03 if o["disable_dependencies"] else 0.25):
        o["refresh_rate"] = rng.choice(["other", "other", "negative"])
    if rng.random() < 0.06:
        o["pmi"] = rng.choice(["pmix", "bad"])
    return o


CORPUS = [
    {"backend": "local", "block_allocation": True, "disable_dependencies": False, "max_workers": 0},                     # D11 (fixed)
    {"backend": "local", "block_allocation": False, "disable_dependencies": True, "max_cores": 1, "rd": {"cores": 2}},       # D10/D11 (fixed)
    {"backend": "local", "block_allocation": False, "disable_dependencies": True, "max_cores": 1, "percall": {"threads_per_core": 2}},  # D10 (fixed)
    {"backend": "local", "block_allocation": False, "disable_dependencies": False, "refresh_rate": "negative"},              # D24 (fixed)
    {"backend": "local", "block_allocation": False, "disable_dependencies": False, "max_cores": 3, "rd": {"cores": 2}, "percall": {"threads_per_core": 2}},  # D10, executor-level cores (fixed)
    {"backend": "local", "block_allocation": False, "disable_dependencies": True, "max_cores": 3, "rd": {"cores": 2}, "percall": {"threads_per_core": 2}},
    {"backend": "local", "block_allocation": False, "disable_dependencies": True, "max_cores": 0, "rd": {"cores": 0}},
    {"backend": "local", "block_allocation": False, "disable_dependencies": False, "percall": {"unknown_key": True}},        # D20 (fixed)
    {"backend": "local", "block_allocation": True, "disable_dependencies": False, "plot": True, "rd": {"unknown_key": True}},
    {"backend": "local", "block_allocation": False, "disable_dependencies": True, "percall": {"gpus_per_core": 1}},
    {"backend": "local_submission", "block_allocation": False, "disable_dependencies": False},                               # D22 (fixed)
    {"backend": "local", "block_allocation": False, "disable_dependencies": False, "rd": {"cwd": "missing"}},                # D23 (fixed)
    {"backend": "slurm_allocation", "block_allocation": False, "disable_dependencies": True, "rd": {"cores": 2, "threads_per_core": 2, "slurm_cmd_args": "nonempty"}},
    {"backend": "local", "block_allocation": True, "disable_dependencies": True, "max_workers": 2, "init_function": True, "cache_directory": True},
]


def body(ctx: Ctx):
    m = ctx.model
    if ctx.replay_file:
        cfgs = [json.load(open(ctx.replay_file))["config"]]
    else:
        n = 260 if ctx.tier == "quick" else 2600
        cfgs = [dict(c) for c in CORPUS] + [gen_cfg(ctx.rng) for _ in range(n)]
    ncpu = os.cpu_count() or 1
    if not ctx.replay_file:
        # every fourth configuration with a per-call dictionary: the caller changes that very dictionary in place and submits it again
        for k, c in enumerate(cfgs):
            if c.get("percall") and not c.get("block_allocation") and k % 4 == 0 and "percall_then" not in c:
                c["percall_then"] = ctx.rng.choice([{"cores": 64}, {"threads_per_core": 64}, {"unknown_key": True}, {"gpus_per_core": 1},
                                                    {"cores": 1}, gen_rd(ctx.rng, 0.4) or {"cores": 1}])
    model = m.ask_many([dict(op="config_decide", env_ncpu=ncpu, **{k: v for k, v in c.items() if k != "percall_then"}) for c in cfgs])
    model_then = {k: mo for k, mo in zip([k for k, c in enumerate(cfgs) if c.get("percall_then") is not None],
                                         m.ask_many([dict(op="config_decide", env_ncpu=ncpu, **dict({kk: v for kk, v in c.items() if kk != "percall_then"},
                                                                                                     percall=c["percall_then"]))
                                                     for c in cfgs if c.get("percall_then") is not None]))}
    with ThreadPoolExecutor(max_workers=16) as pool:
        outs = list(pool.map(run_cfg, cfgs))
    # anything that looks wrong is decided by time limits in part (a loaded machine is slow): run it again, alone, with
    # five times the limits, and judge that run
    def suspicious(mo, out):
        if "error" in out:
            return True
        if out["construct"] != mo.get("construct") or (out["construct"] is None and out["submit"] != mo.get("submit")):
            return True
        if mo.get("construct") is None and mo.get("submit") is None:
            ran = out["result"] == "ok" and out["shutdown"] == "returned"
            return ran != bool(mo.get("runnable"))
        return False

    # (every suspicious one: a cap here once let a configuration that was merely slow - sixteen workers booting on a loaded machine -
    # through as a failure)
    redo = [k for k, (mo, out) in enumerate(zip(model, outs)) if suspicious(mo, out)][:80]
    with ThreadPoolExecutor(max_workers=3) as pool:
        for k, o2 in zip(redo, pool.map(lambda k: run_cfg(cfgs[k], slow=True), redo)):
            outs[k] = o2
            ctx.count("rerun_with_longer_limits")
    diffs, fails = [], []
    known = {}
    repo = os.path.realpath(os.environ.get("VERIF_REPO", "/repo"))
    for c, mo, out in zip(cfgs, model, outs):
        if "error" in out:
            raise InfraError("config runner failed on %s: %s" % (c, out))
        if not os.path.realpath(out["pin"]).startswith(repo + os.sep):
            raise InfraError("config runner imported executorlib from " + out["pin"])
        accepted_model = mo.get("construct") is None and mo.get("submit") is None
        ctx.case(c, nontrivial=len(c) > 3)
        ctx.count("backend." + c["backend"])
        ctx.count("model." + ("rejected_at_construct" if mo.get("construct") else "rejected_at_submit" if mo.get("submit") else
                              ("runnable" if mo.get("runnable") else "region." + str(mo.get("region")).split(".")[-1])))
        if out["construct"] != mo.get("construct"):
            diffs.append({"kind": "construct", "config": c, "impl": out["construct"], "model": mo.get("construct"), "outcome": out})
            continue
        if out["construct"] is None and out["submit"] != mo.get("submit"):
            diffs.append({"kind": "submit", "config": c, "impl": out["submit"], "model": mo.get("submit"), "outcome": out})
            continue
        if not accepted_model:
            continue
        kk = cfgs.index(c) if c.get("percall_then") is not None else None
        if kk is not None and "submit3" in out and kk in model_then:
            mo3 = model_then[kk]
            ctx.count("same_dictionary_changed_and_resubmitted")
            if mo3.get("construct") is None and out["submit3"] != mo3.get("submit"):
                d3 = {"kind": "submit_of_changed_dictionary", "config": c, "impl": out["submit3"], "model": mo3.get("submit"), "outcome": out}
                if mo3.get("submit") is not None and out["submit3"] is None:
                    # a request the executor must refuse was accepted because the dictionary object had been seen before
                    fails.append({"config": c, "outcome": out, "model": mo3,
                                  "what": "the per-call dictionary, changed in place and submitted again, was accepted although its content must be refused"})
                else:
                    diffs.append(d3)
                continue
        ran = out["result"] == "ok" and out["shutdown"] == "returned"
        if mo["runnable"]:
            if not ran:
                fails.append({"config": c, "outcome": out, "model": mo})
        else:
            reg = REGION_ID.get(str(mo.get("region")).split(".")[-1], "?")
            if ran:
                diffs.append({"kind": "region_runs", "config": c, "impl": out, "model": mo})
            else:
                known.setdefault(reg, []).append(c)
    # a failure that rests on a time limit counts only when it shows again in a run of its own, alone, with long limits
    confirmed = []
    for f in fails[:6]:
        if f.get("what"):            # decided by an exception class, not by a time limit
            confirmed.append(f)
            continue
        o3 = run_cfg(dict(f["config"], result_timeout=60, shutdown_timeout=60), slow=False)
        ctx.count("failure_confirmation_runs")
        if "error" in o3 or not (o3.get("result") == "ok" and o3.get("shutdown") == "returned"):
            confirmed.append(dict(f, confirmation_run=o3))
        else:
            ctx.count("failure_not_confirmed")
    fails = confirmed + fails[6:]
    ctx.oblige("correspondence: accept / reject and the exception class at construction and at submit = Config.construct / submitCheck; "
               "configurations in a listed region do fail to run", not diffs, f"{len(cfgs)} configurations")
    ctx.oblige("every accepted configuration outside the listed regions ran the call and shut down (Runnable)", not fails)
    for reg, lst in sorted(known.items()):
        ctx.violation({"kind": "accepted_not_run", "region": reg, "failing_input": True},
                      {"what": "accepted configuration leaves the call pending (region %s of the model, not a listed finding)" % reg, "config": lst[0]})
    if fails:
        f = fails[0]
        ctx.violation({"kind": "accepted_not_run", "failing_input": True},
                      {"what": "an accepted configuration the model calls Runnable did not run the call / did not shut down (theorem accepted_runs)", **f})
    if diffs and not fails:
        d = diffs[0]
        # a difference in accept/reject: the property oracle is whether the accepted call runs; evaluate it on this input
        out = d.get("outcome") or d.get("impl")
        bad = isinstance(out, dict) and out.get("construct") is None and out.get("submit") is None and not (out.get("result") == "ok" and out.get("shutdown") == "returned")
        ctx.violation({"kind": "config_" + d["kind"], "failing_input": bool(bad)},
                      {"what": "constructor / submit decision differs from the model Config" + ("; the accepted call does not run" if bad else
                               " (theorem accepted_runs no longer shown to apply to the code); no failing input found"),
                       "correspondence": "engine A: vh.config_runner vs modeld config_decide", **d}, no_input=not bad)
    return {
        "rule": "configurations from the product of backend (local, slurm_allocation with an srun stand-in, flux_allocation, *_submission, unknown), "
                "block_allocation, disable_dependencies, max_workers / max_cores (absent, 0, 1, 2, 3, 4), executor-level and per-call resource "
                "dictionaries (cores, threads_per_core, gpus_per_core, cwd existing / missing / None, oversubscribe, extra arguments, unknown "
                "key), function with a resource_dict parameter, init_function, hostname_localhost, refresh_rate (default, other, negative), "
                "flux options, pysqa_config_directory, plot_dependency_graph, cache_directory; each executed in its own process with a trivial "
                "call submitted twice back to back and 6 s limits; non-trivial = more than the three mandatory options set",
        "differences": len(diffs), "accepted_not_run_outside_regions": len(fails),
        "inside_known_regions": {k: len(v) for k, v in known.items()},
        "ast_hashes": ast_hashes(ANCHORS),
        "trusted_base_extra": ["environment of this sandbox: flux and pysqa not importable, mpi4py / mpiexec / srun are stand-ins, h5py stand-in",
                               "a call counts as 'not run' when its future is not done within 6 s or shutdown(wait=True) does not return within 6 s"],
    }


def main(argv=None):
    run_check("C19", body, argv)


if __name__ == "__main__":
    main()
