"""python -m vh.kill_runner <disable_dependencies 0|1> <workers>  -> one JSON line.
A block-allocation executor runs two state-touching calls per worker, then its worker processes are killed from outside
(SIGKILL between two calls), then further calls are submitted.  Reports (pid, counter) per call, or "pending"."""
import json
import os
import signal
import sys
import time


def bump():
    import builtins
    import os as _os

    builtins._vh_k = getattr(builtins, "_vh_k", 0) + 1
    return _os.getpid(), builtins._vh_k


def main():
    dd, nw = bool(int(sys.argv[1])), int(sys.argv[2])
    import concurrent.futures as cf

    import executorlib

    out = {"pin": executorlib.__file__, "before": [], "after": [], "killed": []}
    exe = executorlib.Executor(backend="local", block_allocation=True, max_workers=nw, disable_dependencies=dd)
    for _ in range(2 * nw):
        out["before"].append(list(exe.submit(bump).result(timeout=60)))
    pids = sorted({p for p, _ in out["before"]})
    for p in pids:
        os.kill(p, signal.SIGKILL)
    t0 = time.monotonic()
    while time.monotonic() - t0 < 10 and any(os.path.exists("/proc/%d" % p) and open("/proc/%d/stat" % p).read().split(") ")[-1][0] != "Z" for p in pids):
        time.sleep(0.05)
    out["killed"] = pids
    futs = [exe.submit(bump) for _ in range(2 * nw)]
    for f in futs:
        try:
            out["after"].append(list(f.result(timeout=5)))
        except cf.TimeoutError:
            out["after"].append("pending")
        except BaseException as e:  # noqa
            out["after"].append("exc:" + type(e).__name__)
    print(json.dumps(out), flush=True)
    for r in out["after"]:
        if isinstance(r, list):
            try:
                os.kill(r[0], signal.SIGKILL)
            except Exception:  # noqa
                pass
    os._exit(0)


if __name__ == "__main__":
    main()
