"""python -m vh.cache_cancel_runner <mode> <workers> <resolver 0|1>  -> one JSON line.
Cancellation on executors WITH a cache directory (outside the Lean model Sys, which has no cache: oracle-only extension of the
C06 check): a first session fills the cache; in a second session over the same directory a slow call occupies the worker,
then cached and uncached calls are queued and some are cancelled while queued."""
import json
import os
import sys
import tempfile
import threading
import time


def work(x, log=None, hold=0.0):
    import os as _os
    import time as _t

    if log:
        fd = _os.open(log, _os.O_WRONLY | _os.O_APPEND | _os.O_CREAT)
        _os.write(fd, ("run %s\n" % x).encode())
        _os.close(fd)
    if hold:
        _t.sleep(hold)
    return x * 3 + 1


def main():
    mode, nw, resolver = sys.argv[1], int(sys.argv[2]), bool(int(sys.argv[3]))
    import concurrent.futures as cf

    import executorlib

    d = tempfile.mkdtemp(prefix="vh_cc_")
    log = os.path.join(d, "witness.log")
    cache = os.path.join(d, "cache")
    kw = dict(backend="local", cache_directory=cache, disable_dependencies=not resolver)
    if mode == "block":
        kw.update(block_allocation=True, max_workers=nw)
    else:
        kw.update(block_allocation=False, max_cores=nw)
    out = {"pin": executorlib.__file__, "mode": mode, "workers": nw, "resolver": resolver, "calls": [], "shutdown": None}
    with executorlib.Executor(**kw) as exe:
        for x in (1, 2, 3):
            exe.submit(work, x, log).result(timeout=60)
    runs_before = open(log).read().splitlines()
    exe = executorlib.Executor(**kw)
    plan = [("slow", 100, False)] * nw + [("cached", 1, True), ("new", 50, False), ("cached", 2, False), ("new", 51, True), ("cached", 3, True), ("new", 52, False)]
    futs = []
    for kind, x, cancel in plan:
        f = exe.submit(work, x, log, hold=0.8) if kind == "slow" else exe.submit(work, x, log)
        futs.append([kind, x, cancel, f, None])
    time.sleep(0.15)
    for rec in futs:
        if rec[2]:
            rec[4] = rec[3].cancel()
    for kind, x, cancel, f, cres in futs:
        r = {"kind": kind, "x": x, "cancel_requested": cancel, "cancel_returned": cres}
        try:
            r["value"] = f.result(timeout=15)
            r["state"] = "finished"
        except cf.CancelledError:
            r["state"] = "cancelled"
        except cf.TimeoutError:
            r["state"] = "pending"
        except BaseException as e:  # noqa
            r["state"] = "failed:" + type(e).__name__
        r["expected"] = x * 3 + 1
        out["calls"].append(r)
    box = {}

    def sd():
        try:
            exe.shutdown(wait=True)
            box["r"] = "returned"
        except BaseException as e:  # noqa
            box["r"] = "raised:" + type(e).__name__

    t = threading.Thread(target=sd, daemon=True)
    t.start()
    t.join(15)
    out["shutdown"] = box.get("r", "hang")
    out["runs_second_session"] = open(log).read().splitlines()[len(runs_before):]
    print(json.dumps(out), flush=True)
    os._exit(0)


if __name__ == "__main__":
    main()
