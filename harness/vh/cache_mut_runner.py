"""python -m vh.cache_mut_runner  -> one JSON line.
C09 with MUTABLE results: one call is submitted six times in one interpreter (same executor after completion, new executors) over
one cache directory; every result the caller receives is compared with the function's value and then EDITED IN PLACE by the caller
(list reversed / extended, dict updated, numpy array changed) before the next submission.  A later submission must still return the
function's value (an equal result), the function must have run once."""
import json
import os
import sys
import tempfile


def table(n, log):
    import os as _os

    fd = _os.open(log, _os.O_WRONLY | _os.O_APPEND | _os.O_CREAT)
    _os.write(fd, b"run\n")
    _os.close(fd)
    import numpy as np

    return {"rows": list(range(n)), "tag": "t%d" % n, "nested": [[1, 2], {"k": [3]}], "arr": np.arange(n)}


def canon(v):
    return {"rows": list(v["rows"]), "tag": v["tag"], "nested": json.loads(json.dumps(v["nested"])), "arr": [int(x) for x in v["arr"]]}


def edit(v):
    v["rows"].reverse()
    v["rows"].append(-1)
    v["tag"] = "edited by the caller"
    v["nested"][0].append(99)
    v["nested"][1]["k"].clear()
    v["arr"] += 5
    v["extra"] = True


def main():
    import executorlib

    base = tempfile.mkdtemp(prefix="vh_cm_")
    out = {"pin": executorlib.__file__, "cases": []}
    for label, kw in (("block", dict(block_allocation=True, max_workers=1)), ("percall", dict(block_allocation=False, max_cores=1))):
        cache = os.path.join(base, "cache_" + label)
        log = os.path.join(base, "witness_" + label)
        want = canon({"rows": list(range(5)), "tag": "t5", "nested": [[1, 2], {"k": [3]}], "arr": list(range(5))})
        k = 0
        for exe_no in range(3):
            with executorlib.Executor(backend="local", cache_directory=cache, disable_dependencies=bool(exe_no % 2), **kw) as e:
                for _ in range(2):
                    k += 1
                    try:
                        got = e.submit(table, 5, log).result(timeout=60)
                        c = canon(got)
                        edit(got)
                    except BaseException as ex:  # noqa
                        c = "EXC:" + type(ex).__name__
                    out["cases"].append({"mode": label, "submission": k, "executor": exe_no, "got": c, "want": want, "ok": c == want})
        runs = len(open(log).read().splitlines()) if os.path.exists(log) else 0
        out["cases"].append({"mode": label, "submission": "executions", "got": runs, "want": 1, "ok": runs == 1})
    print(json.dumps(out), flush=True)
    os._exit(0)


if __name__ == "__main__":
    main()
