"""C14 — crash atomicity.  Lean: Props/C14.lean (atomic_visibility, restart_correct over FileExec with
crash labels; interactive_cache_crash_safe; counterexample for D15).  Tie: kill injection on the
real code: for a base history, the file-mode worker, the submitting process hosting the file-mode
loop thread, and the process hosting the interactive cache writer are killed after their k-th
persistence operation for EVERY k of an uninterrupted run (exhaustive over the enumerated
sequence), each followed by restart sessions (same calls; superset); after every kill the
directory is read back with the real get_output."""
from __future__ import annotations

import json
import os
import shutil
import subprocess
import sys
import tempfile

from .common import VERIF, Ctx, InfraError, ast_hashes, run_check
from . import file_engine as fe
from .c13 import ANCHORS, evaluate

RELEVANT = {"file_entry_incomplete", "file_entry_wrong", "file_wrong_value", "file_lost_future", "file_loop_thread_dead",
            "file_shutdown_raised", "file_hang", "file_lost_future_duplicate"}

BASES = [
    [{"arg": 10, "deps": []}],
    [{"arg": 1, "deps": []}, {"arg": 10, "deps": [0]}],
    [{"arg": 1, "deps": []}, {"arg": 10, "deps": [0]}, {"arg": 100, "deps": [0], "kwdep": 1}],
]


def count_ops(base):
    h = {"sessions": [base], "seed": 0, "kills": [None], "call_timeout": 8}
    out = fe.run_history(h)
    ev = out["sessions"][0]["events"]
    parent = max([e["n"] for e in ev if e["role"] == "parent"] or [0])
    worker = max([e["n"] for e in ev if e["role"] == "worker"] or [0])
    return parent, worker


def interactive_writer_kills(ctx: Ctx, quick: bool):
    """The interactive cache writer (block executor with cache_directory) killed after every persistence operation."""
    from .cache_engine import canon
    from . import cache_runner  # noqa: F401  (expected values)

    env0 = dict(os.environ)
    env0["PYTHONPATH"] = os.pathsep.join([os.environ.get("VERIF_REPO", "/repo"), os.path.join(VERIF, "harness"), os.path.join(VERIF, "harness", "standins")])
    calls = [{"fn": 0, "arg": 1, "kw": None}, {"fn": 1, "arg": 2, "kw": 3}]
    bad, nruns = [], 0

    def run(work, kill):
        wd = tempfile.mkdtemp(prefix="w", dir=work)
        scen = {"cache_dir": os.path.join(work, "cache"), "workdir": wd, "workers": 1, "resolver": False, "block": True, "delay": 0.0,
                "seed": 0, "sessions": [calls], "timeout": 40, "witness": os.path.join(work, "witness")}
        sp, op = os.path.join(wd, "scen.json"), os.path.join(wd, "out.json")
        json.dump(scen, open(sp, "w"))
        env = dict(env0, EXECUTORLIB_VERIF_FSLOG=os.path.join(wd, "fslog"))
        if kill:
            env["EXECUTORLIB_VERIF_KILL"] = "parent:%d" % kill
        p = subprocess.Popen([sys.executable, "-m", "vh.cache_runner", sp, op], env=env, cwd=wd, stdin=subprocess.DEVNULL,
                             stdout=open(os.path.join(wd, "o"), "w"), stderr=open(os.path.join(wd, "e"), "w"), start_new_session=True)
        try:
            rc = p.wait(60)
        except subprocess.TimeoutExpired:
            rc = -9
        try:
            os.killpg(p.pid, 9)
        except Exception:  # noqa
            pass
        nops = len(open(os.path.join(wd, "fslog")).read().splitlines()) if os.path.exists(os.path.join(wd, "fslog")) else 0
        out = json.load(open(op)) if os.path.exists(op) else None
        return rc, nops, out

    work = tempfile.mkdtemp(prefix="vh_c14i_")
    try:
        rc, nops, out = run(work, None)
        if rc != 0 or nops == 0:
            raise InfraError("interactive writer base run failed rc=%s ops=%s" % (rc, nops))
        shutil.rmtree(os.path.join(work, "cache"), ignore_errors=True)
        ks = list(range(1, nops + 1))
        for k in ks:
            w2 = tempfile.mkdtemp(prefix="vh_c14k_")
            try:
                rc, _, _ = run(w2, k)
                nruns += 1
                cache = os.path.join(w2, "cache")
                for fn in sorted(os.listdir(cache)) if os.path.isdir(cache) else []:
                    if fn.endswith(".h5out"):
                        ent = fe.read_entry(os.path.join(cache, fn))
                        if ent.get("error") or not ent.get("ok"):
                            bad.append({"kill_after_op": k, "file": fn, "entry": ent, "what": "published entry without a complete output"})
                rc2, _, out2 = run(w2, None)       # restart: same calls
                nruns += 1
                ctx.case({"interactive_writer_kill": k}, nontrivial=True)
                ctx.count("interactive.kill_points")
                if rc2 != 0 or out2 is None:
                    bad.append({"kill_after_op": k, "what": "restart did not finish", "rc": rc2})
                else:
                    for i, r in out2["obs"]["sessions"][0]["results"].items():
                        if not r.get("match"):
                            bad.append({"kill_after_op": k, "what": "restart returned a wrong value", "i": i, "got": r})
            finally:
                shutil.rmtree(w2, ignore_errors=True)
    finally:
        shutil.rmtree(work, ignore_errors=True)
    return bad, nops, nruns


FINAL = ".h5out"
WRITE_FLAGS = ("O_WRONLY", "O_RDWR", "O_CREAT", "O_TRUNC", "O_APPEND")


def parse_strace(log, cache):
    """File-system calls that touch a final name (<cache>/**/<key>.h5out): [(kind, src, dst, flags, ret)]."""
    import re

    out = []
    rx_open = re.compile(r'^\d+\s+(openat|open|creat)\((?:AT_FDCWD, )?"([^"]*)"(?:, ([A-Z_|0-9]+))?')
    rx_ren = re.compile(r'^\d+\s+(rename|renameat|renameat2|link|linkat)\((?:AT_FDCWD, )?"([^"]*)", (?:AT_FDCWD, )?"([^"]*)"')
    for line in open(log, errors="replace"):
        if FINAL + '"' not in line:
            continue
        ret = line.rsplit("=", 1)[-1].strip() if "=" in line and "unfinished" not in line else "?"
        m = rx_ren.match(line)
        if m and m.group(3).endswith(FINAL) and os.path.realpath(m.group(3)).startswith(cache):
            out.append((m.group(1), m.group(2), m.group(3), "", ret))
            continue
        m = rx_open.match(line)
        if m and m.group(2).endswith(FINAL) and os.path.realpath(m.group(2)).startswith(cache):
            out.append((m.group(1), None, m.group(2), m.group(3) or "", ret))
    return out


def publication_discipline(ctx: Ctx):
    """A final name appears in a cache directory only by rename(2) from a name in the SAME directory: traced at system-call level
    (strace) on real sessions of both modes, with the cache directory and the temporary directory (TMPDIR) on different file
    systems and on the same one.  This is the model's atomic `publish` label (switch atomicPublish of Lts/Cache.lean, `pPublish`
    of Lts/FileExec.lean) checked against what the process really asks the kernel to do; os.rename is atomic only within one
    file system."""
    env0 = dict(os.environ)
    env0["PYTHONPATH"] = os.pathsep.join([os.environ.get("VERIF_REPO", "/repo"), os.path.join(VERIF, "harness"), os.path.join(VERIF, "harness", "standins")])
    shm_ok = os.path.isdir("/dev/shm") and os.access("/dev/shm", os.W_OK) and os.stat("/dev/shm").st_dev != os.stat(tempfile.gettempdir()).st_dev
    layouts = [("same file system", tempfile.gettempdir(), None)]
    if shm_ok:
        layouts += [("cache on tmpfs, TMPDIR on disk", "/dev/shm", None), ("cache on disk, TMPDIR on tmpfs", tempfile.gettempdir(), "/dev/shm")]
    else:
        ctx.count("publication.no_second_file_system")
    bad, traced = [], 0
    for name, cache_root, tmp_root in layouts:
        work = tempfile.mkdtemp(prefix="vh_c14p_", dir=cache_root)
        tdir = tempfile.mkdtemp(prefix="vh_c14t_", dir=tmp_root) if tmp_root else None
        try:
            cache = os.path.realpath(os.path.join(work, "cache"))
            os.makedirs(cache)
            env = dict(env0)
            if tdir:
                env["TMPDIR"] = tdir
            log, outp = os.path.join(work, "strace.log"), os.path.join(work, "out.json")
            p = subprocess.Popen(["strace", "-f", "-qq", "-o", log, "-e", "trace=open,openat,creat,rename,renameat,renameat2,link,linkat",
                                  sys.executable, "-m", "vh.pub_runner", cache, "200000", outp], env=env, cwd=work, stdin=subprocess.DEVNULL,
                                 stdout=open(os.path.join(work, "o"), "w"), stderr=open(os.path.join(work, "e"), "w"), start_new_session=True)
            try:
                p.wait(240)
            except subprocess.TimeoutExpired:
                pass
            try:
                os.killpg(p.pid, 9)
            except Exception:  # noqa
                pass
            if not os.path.exists(outp):
                raise InfraError("publication runner did not finish (%s): %s" % (name, open(os.path.join(work, "e")).read()[-300:]))
            o = json.load(open(outp))
            if not os.path.realpath(o["pin"]).startswith(os.path.realpath(os.environ.get("VERIF_REPO", "/repo")) + os.sep):
                raise InfraError("publication runner imported executorlib from " + o["pin"])
            calls = parse_strace(log, cache)
            finals = sorted({c[2] for c in calls})
            if len(finals) < 4:
                raise InfraError("strace saw fewer than 4 final names (%s): %r" % (name, calls[:6]))
            ctx.case({"publication_layout": name}, nontrivial=True)
            ctx.count("publication.layouts")
            for kind, src, dst, flags, ret in calls:
                traced += 1
                if kind in ("open", "openat", "creat"):
                    if kind == "creat" or any(f in flags.split("|") for f in WRITE_FLAGS):
                        bad.append({"layout": name, "syscall": kind, "path": dst, "flags": flags, "what": "final name opened for writing"})
                elif os.path.dirname(os.path.realpath(src)) != os.path.dirname(os.path.realpath(dst)):
                    bad.append({"layout": name, "syscall": kind, "from": src, "to": dst, "result": ret,
                                "what": "final name created from another directory (not atomic across file systems)"})
            ctx.count("publication.final_names", len(finals))
        finally:
            shutil.rmtree(work, ignore_errors=True)
            if tdir:
                shutil.rmtree(tdir, ignore_errors=True)
    return bad, traced, layouts


def kill_at_first_sight(ctx: Ctx, layout, tries=4):
    """Failing-input search after a broken publication discipline: a 64 MB result, the session is killed the moment a final name is
    listed, then every final name is read back with get_output."""
    import time

    name, cache_root, tmp_root = layout
    env0 = dict(os.environ)
    env0["PYTHONPATH"] = os.pathsep.join([os.environ.get("VERIF_REPO", "/repo"), os.path.join(VERIF, "harness"), os.path.join(VERIF, "harness", "standins")])
    for t in range(tries):
        work = tempfile.mkdtemp(prefix="vh_c14q_", dir=cache_root)
        tdir = tempfile.mkdtemp(prefix="vh_c14t_", dir=tmp_root) if tmp_root else None
        try:
            cache = os.path.join(work, "cache")
            ci = os.path.join(cache, "interactive")
            os.makedirs(ci)
            env = dict(env0)
            if tdir:
                env["TMPDIR"] = tdir
            p = subprocess.Popen([sys.executable, "-m", "vh.pub_runner", cache, str(96 << 20), os.path.join(work, "out.json")], env=env, cwd=work,
                                 stdin=subprocess.DEVNULL, stdout=subprocess.DEVNULL, stderr=subprocess.DEVNULL, start_new_session=True)
            t0 = time.monotonic()
            seen = set()
            while time.monotonic() - t0 < 120 and p.poll() is None:
                now = {f for f in os.listdir(ci) if f.endswith(FINAL)}
                new = [f for f in now - seen if os.path.getsize(os.path.join(ci, f)) < (90 << 20) and f.startswith("big")]
                seen = now
                if new:
                    break
            try:
                os.killpg(p.pid, 9)
            except Exception:  # noqa
                pass
            p.wait()
            for fn in sorted(os.listdir(ci)):
                if fn.endswith(FINAL):
                    ent = fe.read_entry(os.path.join(ci, fn))
                    if ent.get("error") or not ent.get("ok"):
                        return {"layout": name, "attempt": t, "file": fn, "size_at_kill": os.path.getsize(os.path.join(ci, fn)), "entry": ent,
                                "what": "the submitting process was killed while a 96 MB result was being published: a final name holds a partial entry"}
        finally:
            shutil.rmtree(work, ignore_errors=True)
            if tdir:
                shutil.rmtree(tdir, ignore_errors=True)
    return None


def body(ctx: Ctx):
    if ctx.replay_file:
        hists = [json.load(open(ctx.replay_file))["history"]]
        outs = fe.run_many(hists, jobs=1)
        evaluate(ctx, "C14", hists, outs, RELEVANT)
        return {"rule": "replay"}
    quick = ctx.tier == "quick"
    bases = BASES[:2] if quick else BASES
    hists, enum = [], []
    for base in bases:
        P, W = count_ops(base)
        enum.append({"calls": len(base), "parent_ops": P, "worker_ops": W})
        superset = json.loads(json.dumps(base)) + [{"arg": 100, "deps": [0]}]
        for k in range(1, W + 1):
            hists.append({"sessions": [base, base, superset], "kills": ["worker:%d" % k, None, None], "seed": k, "call_timeout": 8})
        for k in range(1, P + 1):
            hists.append({"sessions": [base, base], "kills": ["parent:%d" % k, None], "seed": 1000 + k, "call_timeout": 8})
        if not quick:
            for k in range(1, W + 1, 2):      # a second crash in the restart session
                hists.append({"sessions": [base, base, base], "kills": ["worker:%d" % k, "worker:%d" % max(1, W - k), None], "seed": 2000 + k, "call_timeout": 8})
    outs = fe.run_many(hists, jobs=8)
    validated = evaluate(ctx, "C14", hists, outs, RELEVANT)
    bad, nops, nruns = interactive_writer_kills(ctx, quick)
    ctx.oblige("interactive cache writer killed after each of its %d persistence operations: no published entry without a complete output; "
               "the restart returns the correct values" % nops, not bad)
    if bad:
        ctx.violation({"kind": "interactive_writer_crash", "failing_input": True},
                      {"what": "the interactive cache writer, killed at this point, leaves an accepted-but-incomplete entry or wedges the restart", "cases": bad[:3]})
    pbad, ptraced, layouts = publication_discipline(ctx)
    ctx.oblige("publication discipline at system-call level (strace): in %d layouts of cache directory / TMPDIR a final name (*.h5out) is only "
               "ever created by rename from the same directory, never opened for writing" % len(layouts), not pbad, "%d calls on final names" % ptraced)
    if pbad:
        # layouts in which a final name was opened for writing first (there the entry is visible while it grows)
        order = [b["layout"] for b in pbad if "opened for writing" in b["what"]] + [b["layout"] for b in pbad]
        witness = None
        for lname in dict.fromkeys(order):
            witness = kill_at_first_sight(ctx, [l for l in layouts if l[0] == lname][0], tries=3)
            if witness:
                break
        if witness:
            ctx.violation({"kind": "partial_entry_under_final_name", "failing_input": True},
                          {"what": "a cache entry is not published atomically (theorems atomic_visibility / interactive_cache_crash_safe assume the "
                                   "model's atomic publish step): killed during publication, the directory holds a final name with a partial "
                                   "entry", "witness": witness, "system_calls": pbad[:4]})
        else:
            ctx.violation({"kind": "publication_discipline", "failing_input": False},
                          {"what": "correspondence broken, no failing input found: the code no longer publishes a cache entry by rename within "
                                   "its directory, so the model's atomic publish step (Cache.step create/write/publish with atomicPublish, "
                                   "FileExec pPublish) is not what the code does", "broken": "system-call trace vs the model's publish label",
                           "theorems_no_longer_tied": ["ExecModel.C14.atomic_visibility", "ExecModel.C14.interactive_cache_crash_safe"],
                           "system_calls": pbad[:6]}, no_input=True)
    return {
        "publication_layouts": [l[0] for l in layouts], "final_name_syscalls": ptraced,
        "rule": "publication discipline: both modes run under strace with cache directory and TMPDIR on one and on two file systems - a final "
                "name appears only by rename within its directory; kill injection: for each base program (1-3 calls with dependencies) every persistence operation k of the file-mode worker "
                "process(es) and of the submitting process (loop thread) of an uninterrupted run is a kill point (os._exit right after the "
                "k-th operation), followed by restart sessions (same calls; superset); the interactive cache writer likewise; after each "
                "kill every *.h5out is read back with get_output; non-trivial = a kill point",
        "exhaustive": True,
        "enumerated": enum, "interactive_writer_ops": nops,
        "traces_validated_against_impl": validated,
        "ast_hashes": ast_hashes(ANCHORS),
        "trusted_base_extra": ["kill = os._exit(137) in the process right after its k-th logged persistence operation (h5py stand-in operations, "
                               "os.rename, os.listdir, os.path.exists of cache files): crashes inside one operation are covered by the model's "
                               "crashWrite label only, the stand-in writes a record with a single write()", "h5py stand-in; os.rename atomic"],
    }


def main(argv=None):
    run_check("C14", body, argv)


if __name__ == "__main__":
    main()
