"""C14 — crash atomicity.  Lean: Props/C14.lean (atomic_visibility, restart_correct over FileExec with
crash labels; interactive_cache_crash_safe; counterexample for D15).  Tie: kill injection on the
real code: for a base history, the file-mode worker, the submitting process hosting the file-mode
loop thread, and the process hosting the interactive cache writer are killed after their k-th
persistence operation for EVERY k of an uninterrupted run (exhaustive over the enumerated
sequence), each followed by restart sessions (same calls; superset); after every kill the
directory is read back with the real get_output."""
from __future__ import annotations

import json
import os
import shutil
import subprocess
import sys
import tempfile

from .common import VERIF, Ctx, InfraError, ast_hashes, run_check
from . import file_engine as fe
from .c13 import ANCHORS, evaluate

RELEVANT = {"file_entry_incomplete", "file_entry_wrong", "file_wrong_value", "file_lost_future", "file_loop_thread_dead",
            "file_shutdown_raised", "file_hang", "file_lost_future_duplicate"}

BASES = [
    [{"arg": 10, "deps": []}],
    [{"arg": 1, "deps": []}, {"arg": 10, "deps": [0]}],
    [{"arg": 1, "deps": []}, {"arg": 10, "deps": [0]}, {"arg": 100, "deps": [0], "kwdep": 1}],
]


def count_ops(base):
    h = {"sessions": [base], "seed": 0, "kills": [None], "call_timeout": 8}
    out = fe.run_history(h)
    ev = out["sessions"][0]["events"]
    parent = max([e["n"] for e in ev if e["role"] == "parent"] or [0])
    worker = max([e["n"] for e in ev if e["role"] == "worker"] or [0])
    return parent, worker


def interactive_writer_kills(ctx: Ctx, quick: bool):
    """The interactive cache writer (block executor with cache_directory) killed after every persistence operation."""
    from .cache_engine import canon
    from . import cache_runner  # noqa: F401  (expected values)

    env0 = dict(os.environ)
    env0["PYTHONPATH"] = os.pathsep.join([os.environ.get("VERIF_REPO", "/repo"), os.path.join(VERIF, "harness"), os.path.join(VERIF, "harness", "standins")])
    calls = [{"fn": 0, "arg": 1, "kw": None}, {"fn": 1, "arg": 2, "kw": 3}]
    bad, nruns = [], 0

    def run(work, kill):
        wd = tempfile.mkdtemp(prefix="w", dir=work)
        scen = {"cache_dir": os.path.join(work, "cache"), "workdir": wd, "workers": 1, "resolver": False, "block": True, "delay": 0.0,
                "seed": 0, "sessions": [calls], "timeout": 40, "witness": os.path.join(work, "witness")}
        sp, op = os.path.join(wd, "scen.json"), os.path.join(wd, "out.json")
        json.dump(scen, open(sp, "w"))
        env = dict(env0, EXECUTORLIB_VERIF_FSLOG=os.path.join(wd, "fslog"))
        if kill:
            env["EXECUTORLIB_VERIF_KILL"] = "parent:%d" % kill
        p = subprocess.Popen([sys.executable, "-m", "vh.cache_runner", sp, op], env=env, cwd=wd, stdin=subprocess.DEVNULL,
                             stdout=open(os.path.join(wd, "o"), "w"), stderr=open(os.path.join(wd, "e"), "w"), start_new_session=True)
        try:
            rc = p.wait(60)
        except subprocess.TimeoutExpired:
            rc = -9
        try:
            os.killpg(p.pid, 9)
        except Exception:  # noqa
            pass
        nops = len(open(os.path.join(wd, "fslog")).read().splitlines()) if os.path.exists(os.path.join(wd, "fslog")) else 0
        out = json.load(open(op)) if os.path.exists(op) else None
        return rc, nops, out

    work = tempfile.mkdtemp(prefix="vh_c14i_")
    try:
        rc, nops, out = run(work, None)
        if rc != 0 or nops == 0:
            raise InfraError("interactive writer base run failed rc=%s ops=%s" % (rc, nops))
        shutil.rmtree(os.path.join(work, "cache"), ignore_errors=True)
        ks = list(range(1, nops + 1))
        for k in ks:
            w2 = tempfile.mkdtemp(prefix="vh_c14k_")
            try:
                rc, _, _ = run(w2, k)
                nruns += 1
                cache = os.path.join(w2, "cache")
                for fn in sorted(os.listdir(cache)) if os.path.isdir(cache) else []:
                    if fn.endswith(".h5out"):
                        ent = fe.read_entry(os.path.join(cache, fn))
                        if ent.get("error") or not ent.get("ok"):
                            bad.append({"kill_after_op": k, "file": fn, "entry": ent, "what": "published entry without a complete output"})
                rc2, _, out2 = run(w2, None)       # restart: same calls
                nruns += 1
                ctx.case({"interactive_writer_kill": k}, nontrivial=True)
                ctx.count("interactive.kill_points")
                if rc2 != 0 or out2 is None:
                    bad.append({"kill_after_op": k, "what": "restart did not finish", "rc": rc2})
                else:
                    for i, r in out2["obs"]["sessions"][0]["results"].items():
                        if not r.get("match"):
                            bad.append({"kill_after_op": k, "what": "restart returned a wrong value", "i": i, "got": r})
            finally:
                shutil.rmtree(w2, ignore_errors=True)
    finally:
        shutil.rmtree(work, ignore_errors=True)
    return bad, nops, nruns


def body(ctx: Ctx):
    if ctx.replay_file:
        hists = [json.load(open(ctx.replay_file))["history"]]
        outs = fe.run_many(hists, jobs=1)
        evaluate(ctx, "C14", hists, outs, RELEVANT)
        return {"rule": "replay"}
    quick = ctx.tier == "quick"
    bases = BASES[:2] if quick else BASES
    hists, enum = [], []
    for base in bases:
        P, W = count_ops(base)
        enum.append({"calls": len(base), "parent_ops": P, "worker_ops": W})
        superset = json.loads(json.dumps(base)) + [{"arg": 100, "deps": [0]}]
        for k in range(1, W + 1):
            hists.append({"sessions": [base, base, superset], "kills": ["worker:%d" % k, None, None], "seed": k, "call_timeout": 8})
        for k in range(1, P + 1):
            hists.append({"sessions": [base, base], "kills": ["parent:%d" % k, None], "seed": 1000 + k, "call_timeout": 8})
        if not quick:
            for k in range(1, W + 1, 2):      # a second crash in the restart session
                hists.append({"sessions": [base, base, base], "kills": ["worker:%d" % k, "worker:%d" % max(1, W - k), None], "seed": 2000 + k, "call_timeout": 8})
    outs = fe.run_many(hists, jobs=8)
    validated = evaluate(ctx, "C14", hists, outs, RELEVANT)
    bad, nops, nruns = interactive_writer_kills(ctx, quick)
    ctx.oblige("interactive cache writer killed after each of its %d persistence operations: no published entry without a complete output; "
               "the restart returns the correct values" % nops, not bad)
    if bad:
        ctx.violation({"kind": "interactive_writer_crash", "failing_input": True},
                      {"what": "the interactive cache writer, killed at this point, leaves an accepted-but-incomplete entry or wedges the restart", "cases": bad[:3]})
    return {
        "rule": "kill injection: for each base program (1-3 calls with dependencies) every persistence operation k of the file-mode worker "
                "process(es) and of the submitting process (loop thread) of an uninterrupted run is a kill point (os._exit right after the "
                "k-th operation), followed by restart sessions (same calls; superset); the interactive cache writer likewise; after each "
                "kill every *.h5out is read back with get_output; non-trivial = a kill point",
        "exhaustive": True,
        "enumerated": enum, "interactive_writer_ops": nops,
        "traces_validated_against_impl": validated,
        "ast_hashes": ast_hashes(ANCHORS),
        "trusted_base_extra": ["kill = os._exit(137) in the process right after its k-th logged persistence operation (h5py stand-in operations, "
                               "os.rename, os.listdir, os.path.exists of cache files): crashes inside one operation are covered by the model's "
                               "crashWrite label only, the stand-in writes a record with a single write()", "h5py stand-in; os.rename atomic"],
    }


def main(argv=None):
    run_check("C14", body, argv)


if __name__ == "__main__":
    main()
