"""C14 — crash atomicity.  Lean: Props/C14.lean (atomic_visibility, restart_correct over FileExec with
crash labels; interactive_cache_crash_safe; counterexample for D15).  Tie: kill injection on the
real code: for a base history, the file-mode worker, the submitting process hosting the file-mode
loop thread, and the process hosting the interactive cache writer are killed after their k-th
persistence operation for EVERY k of an uninterrupted run (exhaustive over the enumerated
sequence), each followed by restart sessions (same calls; superset); after every kill the
directory is read back with the real get_output."""
from __future__ import annotations

import json
import os
import shutil
import subprocess
import sys
import tempfile

from .common import VERIF, Ctx, InfraError, ast_hashes, run_check
from . import file_engine as fe
from .c13 import ANCHORS, evaluate

RELEVANT = {"file_entry_incomplete", "file_entry_wrong", "file_wrong_value", "file_lost_future", "file_loop_thread_dead",
            "file_shutdown_raised", "file_hang", "file_lost_future_duplicate"}

BASES = [
    [{"arg": 10, "deps": []}],
    [{"arg": 1, "deps": []}, {"arg": 10, "deps": [0]}],
    [{"arg": 1, "deps": []}, {"arg": 10, "deps": [0]}, {"arg": 100, "deps": [0], "kwdep": 1}],
]


def count_ops(base):
    h = {"sessions": [base], "seed": 0, "kills": [None], "call_timeout": 8}
    out = fe.run_history(h)
    ev = out["sessions"][0]["events"]
    parent = max([e["n"] for e in ev if e["role"] == "parent"] or [0])
    worker = max([e["n"] for e in ev if e["role"] == "worker"] or [0])
    return parent, worker


def interactive_writer_kills(ctx: Ctx, quick: bool):
    """The interactive cache writer (block executor with cache_directory) killed after every persistence operation."""
    from .cache_engine import canon
    from . import cache_runner  # noqa: F401  (expected values)

    env0 = dict(os.environ)
    env0["PYTHONPATH"] = os.pathsep.join([os.environ.get("VERIF_REPO", "/repo"), os.path.join(VERIF, "harness"), os.path.join(VERIF, "harness", "standins")])
    calls = [{"fn": 0, "arg": 1, "kw": None}, {"fn": 1, "arg": 2, "kw": 3}]
    bad, nruns = [], 0

    def run(work, kill):
        wd = tempfile.mkdtemp(prefix="w", dir=work)
        scen = {"cache_dir": os.path.join(work, "cache"), "workdir": wd, "workers": 1, "resolver": False, "block": True, "delay": 0.0,
                "seed": 0, "sessions": [calls], "timeout": 40, "witness": os.path.join(work, "witness")}
        sp, op = os.path.join(wd, "scen.json"), os.path.join(wd, "out.json")
        json.dump(scen, open(sp, "w"))
        env = dict(env0, EXECUTORLIB_VERIF_FSLOG=os.path.join(wd, "fslog"))
        if kill:
            env["EXECUTORLIB_VERIF_KILL"] = "parent:%d" % kill
        p = subprocess.Popen([sys.executable, "-m", "vh.cache_runner", sp, op], env=env, cwd=wd, stdin=subprocess.DEVNULL,
                             stdout=open(os.path.join(wd, "o"), "w"), stderr=open(os.path.join(wd, "e"), "w"), start_new_session=True)
        try:
            rc = p.wait(60)
        except subprocess.TimeoutExpired:
            rc = -9
        try:
            os.killpg(p.pid, 9)
        except Exception:  # noqa
            pass
        nops = len(open(os.path.join(wd, "fslog")).read().splitlines()) if os.path.exists(os.path.join(wd, "fslog")) else 0
        out = json.load(open(op)) if os.path.exists(op) else None
        return rc, nops, out

    work = tempfile.mkdtemp(prefix="vh_c14i_")
    try:
        rc, nops, out = run(work, None)
        if rc != 0 or nops == 0:
            raise InfraError("interactive writer base run failed rc=%s ops=%s" % (rc, nops))
        shutil.rmtree(os.path.join(work, "cache"), ignore_errors=True)
        ks = list(range(1, nops + 1))
        for k in ks:
            w2 = tempfile.mkdtemp(prefix="vh_c14k_")
            try:
                rc, _, _ = run(w2, k)
                nruns += 1
                cache = os.path.join(w2, "cache")
                for fn in sorted(os.listdir(cache)) if os.path.isdir(cache) else []:
                    if fn.endswith(".h5out"):
                        ent = fe.read_entry(os.path.join(cache, fn))
                        if ent.get("error") or not ent.get("ok"):
                            bad.append({"kill_after_op": k, "file": fn, "entry": ent, "what": "published entry without a complete output"})
                rc2, _, out2 = run(w2, None)       # restart: same calls
                nruns += 1
                ctx.case({"interactive_writer_kill": k}, nontrivial=True)
                ctx.count("interactive.kill_points")
                if rc2 != 0 or out2 is None:
                    bad.append({"kill_after_op": k, "what": "restart did not finish", "rc": rc2})
                else:
                    for i, r in out2["obs"]["sessions"][0]["results"].items():
                        if not r.get("match"):
                            bad.append({"kill_after_op": k, "what": "restart returned a wrong value", "i": i, "got": r})
            finally:
                shutil.rmtree(w2, ignore_errors=True)
    finally:
        shutil.rmtree(work, ignore_errors=True)
    return bad, nops, nruns


FINAL = ".h5out"
WRITE_FLAGS = ("O_WRONLY", "O_RDWR", "O_CREAT", "O_TRUNC", "O_APPEND")


def parse_strace(log, cache):
    """strace -f -y log -> the calls that concern files under <cache> as operations of the Lean model Pub
    (create / reopen / close of descriptors opened for writing, rename, unlink), in log order."""
    import re

    pending = {}
    lines = []
    for raw in open(log, errors="replace"):
        m = re.match(r"^(\d+)\s+(.*)$", raw.rstrip("\n"))
        if not m:
            continue
        pid, rest = m.group(1), m.group(2)
        if rest.endswith("<unfinished ...>"):
            pending[pid] = rest[: -len("<unfinished ...>")]
            continue
        r = re.match(r"^<\.\.\. \w+ resumed>(.*)$", rest)
        if r:
            rest = pending.pop(pid, "") + r.group(1)
        lines.append(rest)
    devs, dirs = {}, {}

    def mk(path):
        d, n = os.path.split(path)
        try:
            dev = os.stat(d).st_dev
        except OSError:
            dev = -1
        return {"fs": devs.setdefault(dev, len(devs)), "dir": dirs.setdefault(d, len(dirs)), "name": n, "final": n.endswith(FINAL)}

    # files elsewhere that are renamed (or are tried to be renamed) into the cache directory belong to the trace too
    feeders = set()
    for ln in lines:
        m = re.match(r'^(rename|renameat|renameat2|link|linkat)\((?:AT_FDCWD<([^>]*)>, )?"([^"]*)", (?:AT_FDCWD<[^>]*>, )?"([^"]*)"', ln)
        if m and os.path.realpath(os.path.join(m.group(2) or "/", m.group(4))).startswith(cache + os.sep):
            feeders.add(os.path.normpath(os.path.join(m.group(2) or "/", m.group(3))))

    def inside(path):
        return os.path.realpath(path).startswith(cache + os.sep) or os.path.normpath(path) in feeders

    ops, wopen = [], []
    rx_open = re.compile(r'^(openat|open|creat)\((?:AT_FDCWD<([^>]*)>, )?"([^"]*)"(?:, ([A-Z_|0-9]+))?.*\) = (-?\d+)')
    rx_ren = re.compile(r'^(rename|renameat|renameat2|link|linkat)\((?:AT_FDCWD<([^>]*)>, )?"([^"]*)", (?:AT_FDCWD<[^>]*>, )?"([^"]*)".*\) = (-?\d+)')
    rx_unl = re.compile(r'^(unlink|unlinkat)\((?:AT_FDCWD<([^>]*)>, )?"([^"]*)".*\) = (-?\d+)')
    rx_close = re.compile(r"^close\((\d+)<([^>]*)>\) = 0")
    for ln in lines:
        m = rx_open.match(ln)
        if m:
            kind, cwd, path, flags, ret = m.groups()
            path = os.path.normpath(os.path.join(cwd or "/", path))
            fl = (flags or "").split("|")
            if not inside(path) or (kind != "creat" and not any(f in fl for f in ("O_WRONLY", "O_RDWR"))):
                continue
            if int(ret) < 0:
                continue
            existed_before = any(o["op"] in ("create", "reopen") and o["p"]["name"] == os.path.basename(path) for o in ops) and "O_TRUNC" not in fl
            ops.append({"op": "reopen" if existed_before else "create", "p": mk(path), "flags": flags})
            wopen.append((ret, path))
            continue
        m = rx_close.match(ln)
        if m:
            key = (m.group(1), os.path.normpath(m.group(2)))
            if key in wopen:
                wopen.remove(key)
                ops.append({"op": "close", "p": mk(key[1])})
            continue
        m = rx_ren.match(ln)
        if m:
            kind, cwd, src, dst, ret = m.groups()
            src, dst = os.path.normpath(os.path.join(cwd or "/", src)), os.path.normpath(os.path.join(cwd or "/", dst))
            if inside(src) or inside(dst):
                # a rename that fails (EXDEV) is the model's rename across file systems: no change; other failures are dropped
                if int(ret) == 0 or "EXDEV" in ln:
                    ops.append({"op": "rename", "p": mk(src), "q": mk(dst), "result": "EXDEV" if int(ret) else "0"})
            continue
        m = rx_unl.match(ln)
        if m and int(m.group(4)) == 0:
            path = os.path.normpath(os.path.join(m.group(2) or "/", m.group(3)))
            if inside(path):
                ops.append({"op": "unlink", "p": mk(path)})
    return ops


def publication_discipline(ctx: Ctx):
    """A final name appears in a cache directory only by rename(2) from a closed file in the SAME directory, and is never opened
    for writing: the system calls of real sessions of both modes (strace -f -y), with the cache directory and the temporary
    directory (TMPDIR) on one and on two file systems, are replayed through the Lean model Pub (`stepD`: the discipline of
    theorems inv_every_prefix / finals_untouched).  This is what the atomic publish steps of Cache / FileExec rest on."""
    env0 = dict(os.environ)
    env0["PYTHONPATH"] = os.pathsep.join([os.environ.get("VERIF_REPO", "/repo"), os.path.join(VERIF, "harness"), os.path.join(VERIF, "harness", "standins")])
    shm_ok = os.path.isdir("/dev/shm") and os.access("/dev/shm", os.W_OK) and os.stat("/dev/shm").st_dev != os.stat(tempfile.gettempdir()).st_dev
    layouts = [("same file system", tempfile.gettempdir(), None)]
    if shm_ok:
        layouts += [("cache on tmpfs, TMPDIR on disk", "/dev/shm", None), ("cache on disk, TMPDIR on tmpfs", tempfile.gettempdir(), "/dev/shm")]
    else:
        ctx.count("publication.no_second_file_system")
    bad, traced = [], 0
    for name, cache_root, tmp_root in layouts:
        work = tempfile.mkdtemp(prefix="vh_c14p_", dir=cache_root)
        tdir = tempfile.mkdtemp(prefix="vh_c14t_", dir=tmp_root) if tmp_root else None
        try:
            cache = os.path.realpath(os.path.join(work, "cache"))
            os.makedirs(cache)
            env = dict(env0)
            if tdir:
                env["TMPDIR"] = tdir
            log, outp = os.path.join(work, "strace.log"), os.path.join(work, "out.json")
            p = subprocess.Popen(["strace", "-f", "-qq", "-y", "-o", log, "-e", "trace=open,openat,creat,close,rename,renameat,renameat2,link,linkat,unlink,unlinkat",
                                  sys.executable, "-m", "vh.pub_runner", cache, "200000", outp], env=env, cwd=work, stdin=subprocess.DEVNULL,
                                 stdout=open(os.path.join(work, "o"), "w"), stderr=open(os.path.join(work, "e"), "w"), start_new_session=True)
            try:
                p.wait(240)
            except subprocess.TimeoutExpired:
                pass
            try:
                os.killpg(p.pid, 9)
            except Exception:  # noqa
                pass
            if not os.path.exists(outp):
                raise InfraError("publication runner did not finish (%s): %s" % (name, open(os.path.join(work, "e")).read()[-300:]))
            o = json.load(open(outp))
            if not os.path.realpath(o["pin"]).startswith(os.path.realpath(os.environ.get("VERIF_REPO", "/repo")) + os.sep):
                raise InfraError("publication runner imported executorlib from " + o["pin"])
            ops = parse_strace(log, cache)
            finals = sorted({(x.get("q") or x["p"])["name"] for x in ops if (x.get("q") or x["p"])["final"]})
            if any(str(v).startswith("EXC:") for v in o["values"].values()):
                # a session that does not even complete is reported by the other parts of this check (and by C13 / C08); here only
                # complete sessions are judged
                ctx.count("publication.session_incomplete")
                continue
            if len(finals) < 4 or not any(x["op"] == "close" for x in ops):
                raise InfraError("strace saw fewer than 4 final names or no close of a written file (%s): %r" % (name, ops[:6]))
            mo = ctx.model.ask("pub_replay", ops=ops)
            ctx.case({"publication_layout": name}, nontrivial=True)
            ctx.count("publication.layouts")
            ctx.count("publication.final_names", len(finals))
            for x in ops:
                ctx.count("publication.op." + x["op"])
            traced += len(ops)
            if mo["accepted"] and len(mo["finals"]) < 4:
                raise InfraError("the model ends with fewer than 4 published entries (%s): %r" % (name, mo))
            if not mo["accepted"] or mo["invariant_fails_after"] is not None:
                i = mo["first_bad"] if mo["first_bad"] is not None else mo["invariant_fails_after"]
                x = ops[min(i, len(ops) - 1)]
                what = ("final name opened for writing" if x["op"] in ("create", "reopen") else
                        "final name created from another directory / file system, or from a file still open for writing")
                bad.append({"layout": name, "first_call_outside_the_discipline": i, "call": x, "what": what, "calls_before": ops[max(0, i - 4):i]})
        finally:
            shutil.rmtree(work, ignore_errors=True)
            if tdir:
                shutil.rmtree(tdir, ignore_errors=True)
    return bad, traced, layouts


def kill_at_first_sight(ctx: Ctx, layout, tries=4):
    """Failing-input search after a broken publication discipline: a 64 MB result, the session is killed the moment a final name is
    listed, then every final name is read back with get_output."""
    import time

    name, cache_root, tmp_root = layout
    env0 = dict(os.environ)
    env0["PYTHONPATH"] = os.pathsep.join([os.environ.get("VERIF_REPO", "/repo"), os.path.join(VERIF, "harness"), os.path.join(VERIF, "harness", "standins")])
    for t in range(tries):
        work = tempfile.mkdtemp(prefix="vh_c14q_", dir=cache_root)
        tdir = tempfile.mkdtemp(prefix="vh_c14t_", dir=tmp_root) if tmp_root else None
        try:
            cache = os.path.join(work, "cache")
            ci = os.path.join(cache, "interactive")
            os.makedirs(ci)
            env = dict(env0)
            if tdir:
                env["TMPDIR"] = tdir
            p = subprocess.Popen([sys.executable, "-m", "vh.pub_runner", cache, str(96 << 20), os.path.join(work, "out.json")], env=env, cwd=work,
                                 stdin=subprocess.DEVNULL, stdout=subprocess.DEVNULL, stderr=subprocess.DEVNULL, start_new_session=True)
            t0 = time.monotonic()
            seen = set()
            while time.monotonic() - t0 < 120 and p.poll() is None:
                now = {f for f in os.listdir(ci) if f.endswith(FINAL)}
                new = [f for f in now - seen if os.path.getsize(os.path.join(ci, f)) < (90 << 20) and f.startswith("big")]
                seen = now
                if new:
                    break
            try:
                os.killpg(p.pid, 9)
            except Exception:  # noqa
                pass
            p.wait()
            for fn in sorted(os.listdir(ci)):
                if fn.endswith(FINAL):
                    ent = fe.read_entry(os.path.join(ci, fn))
                    if ent.get("error") or not ent.get("ok"):
                        return {"layout": name, "attempt": t, "file": fn, "size_at_kill": os.path.getsize(os.path.join(ci, fn)), "entry": ent,
                                "what": "the submitting process was killed while a 96 MB result was being published: a final name holds a partial entry"}
        finally:
            shutil.rmtree(work, ignore_errors=True)
            if tdir:
                shutil.rmtree(tdir, ignore_errors=True)
    return None


def body(ctx: Ctx):
    if ctx.replay_file:
        hists = [json.load(open(ctx.replay_file))["history"]]
        outs = fe.run_many(hists, jobs=1)
        evaluate(ctx, "C14", hists, outs, RELEVANT)
        return {"rule": "replay"}
    quick = ctx.tier == "quick"
    bases = BASES[:2] if quick else BASES
    hists, enum = [], []
    for base in bases:
        P, W = count_ops(base)
        enum.append({"calls": len(base), "parent_ops": P, "worker_ops": W})
        superset = json.loads(json.dumps(base)) + [{"arg": 100, "deps": [0]}]
        for k in range(1, W + 1):
            hists.append({"sessions": [base, base, superset], "kills": ["worker:%d" % k, None, None], "seed": k, "call_timeout": 8})
        for k in range(1, P + 1):
            hists.append({"sessions": [base, base], "kills": ["parent:%d" % k, None], "seed": 1000 + k, "call_timeout": 8})
        if not quick:
            for k in range(1, W + 1, 2):      # a second crash in the restart session
                hists.append({"sessions": [base, base, base], "kills": ["worker:%d" % k, "worker:%d" % max(1, W - k), None], "seed": 2000 + k, "call_timeout": 8})
    outs = fe.run_many(hists, jobs=8)
    validated = evaluate(ctx, "C14", hists, outs, RELEVANT)
    bad, nops, nruns = interactive_writer_kills(ctx, quick)
    ctx.oblige("interactive cache writer killed after each of its %d persistence operations: no published entry without a complete output; "
               "the restart returns the correct values" % nops, not bad)
    if bad:
        ctx.violation({"kind": "interactive_writer_crash", "failing_input": True},
                      {"what": "the interactive cache writer, killed at this point, leaves an accepted-but-incomplete entry or wedges the restart", "cases": bad[:3]})
    if ctx.violations:
        # the kill enumeration already has a failing input: the system-call part would only wait for a file mode that is broken
        pbad, ptraced, layouts = [], 0, []
    else:
        pbad, ptraced, layouts = publication_discipline(ctx)
    ctx.oblige("correspondence at system-call level: the file-system calls (strace) of real sessions of both modes, in %d layouts of cache "
               "directory / TMPDIR, are disciplined traces of the Lean model Pub (runD accepts; theorems inv_every_prefix, finals_untouched)"
               % len(layouts), not pbad, "%d calls" % ptraced)
    if pbad:
        # layouts in which a final name was opened for writing first (there the entry is visible while it grows)
        order = [b["layout"] for b in pbad if "opened for writing" in b["what"]] + [b["layout"] for b in pbad]
        witness = None
        for lname in dict.fromkeys(order):
            witness = kill_at_first_sight(ctx, [l for l in layouts if l[0] == lname][0], tries=3)
            if witness:
                break
        if witness:
            ctx.violation({"kind": "partial_entry_under_final_name", "failing_input": True},
                          {"what": "a cache entry is not published atomically (theorems atomic_visibility / interactive_cache_crash_safe assume the "
                                   "model's atomic publish step): killed during publication, the directory holds a final name with a partial "
                                   "entry", "witness": witness, "system_calls": pbad[:4]})
        else:
            ctx.violation({"kind": "publication_discipline", "failing_input": False},
                          {"what": "correspondence broken, no failing input found: the code no longer publishes a cache entry by rename within "
                                   "its directory, so the model's atomic publish step (Cache.step create/write/publish with atomicPublish, "
                                   "FileExec pPublish) is not what the code does", "broken": "system-call trace vs the model's publish label",
                           "theorems_no_longer_tied": ["ExecModel.C14Pub.inv_every_prefix", "ExecModel.C14Pub.finals_untouched", "ExecModel.C14.atomic_visibility",
                                                       "ExecModel.C14.interactive_cache_crash_safe"],
                           "system_calls": pbad[:6]}, no_input=True)
    return {
        "publication_layouts": [l[0] for l in layouts], "final_name_syscalls": ptraced,
        "rule": "publication discipline: both modes run under strace with cache directory and TMPDIR on one and on two file systems - a final "
                "name appears only by rename within its directory; kill injection: for each base program (1-3 calls with dependencies) every persistence operation k of the file-mode worker "
                "process(es) and of the submitting process (loop thread) of an uninterrupted run is a kill point (os._exit right after the "
                "k-th operation), followed by restart sessions (same calls; superset); the interactive cache writer likewise; after each "
                "kill every *.h5out is read back with get_output; non-trivial = a kill point",
        "exhaustive": True,
        "enumerated": enum, "interactive_writer_ops": nops,
        "traces_validated_against_impl": validated,
        "ast_hashes": ast_hashes(ANCHORS),
        "trusted_base_extra": ["kill = os._exit(137) in the process right after its k-th logged persistence operation (h5py stand-in operations, "
                               "os.rename, os.listdir, os.path.exists of cache files): crashes inside one operation are covered by the model's "
                               "crashWrite label only, the stand-in writes a record with a single write()", "h5py stand-in; os.rename atomic"],
    }


def main(argv=None):
    run_check("C14", body, argv)


if __name__ == "__main__":
    main()
