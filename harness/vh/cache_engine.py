"""Engine C (interactive cache): generated session histories are executed on real block / per-call
executors with a cache directory (h5py stand-in), the linearised trace of every worker thread is
mapped to labels of the Lean transition system `Cache` (look / compute / create / write) and
replayed through `Cache.step` by modeld; oracles for C08 (values, key collisions) and C09
(no re-execution after completion, entries never removed or altered) are evaluated."""
from __future__ import annotations

import json
import os
import shutil
import signal
import subprocess
import sys
import tempfile
from concurrent.futures import ThreadPoolExecutor

from .common import VERIF, InfraError

PY = sys.executable


def gen_scenario(rng, profile=None):
    profile = profile or {}
    pool = [{"fn": rng.randrange(3), "arg": rng.randrange(0, 4), "kw": rng.choice([None, None, 1, 2])} for _ in range(rng.choice([2, 3, 4]))]
    sessions = []
    for _ in range(rng.choice(profile.get("nsessions", [1, 2, 2, 3]))):
        sess = []
        for _ in range(rng.choice([1, 2, 3, 4, 5, 6])):
            c = dict(rng.choice(pool))
            if rng.random() < 0.25:
                c["pause"] = rng.choice([1, 5, 20])
            if rng.random() < 0.3:
                c["wait"] = True
            sess.append(c)
        sessions.append(sess)
    block = rng.random() < profile.get("block_p", 0.75)
    workers = rng.choice([1, 2, 2, 3])
    if rng.random() < profile.get("cancel_p", 0.3):
        # a session in which slow calls occupy every worker while further calls (cached or not) are cancelled in the queue
        k = rng.randrange(len(sessions))
        slow = [{"fn": rng.randrange(3), "arg": 90 + j, "kw": None, "hold": 0.4} for j in range(workers)]
        rest = [dict(rng.choice(pool), **({"cancel": True} if rng.random() < 0.5 else {})) for _ in range(rng.choice([2, 3, 4]))]
        sessions[k] = slow + rest + [dict(rng.choice(pool))]
    if rng.random() < profile.get("mixed_resolver_p", 0.3) and len(sessions) >= 2:
        first = rng.random() < 0.5
        for k, sess in enumerate(sessions):
            if sess:
                sess[0] = dict(sess[0], session_resolver=(first if k % 2 == 0 else not first))
    return {"workers": workers, "resolver": rng.random() < 0.3, "block": block,
            "delay": rng.choice([0.0, 0.3, 0.6]), "seed": rng.randrange(1 << 30), "sessions": sessions,
            "perturb": {r: rng.choice([0, 0, 0.2, 0.5]) for r in ("main", "worker", "resolver", "disp")}, "timeout": 60}


def run_history(scen: dict, processes: int = 1) -> dict:
    """Run the sessions of `scen`, split over `processes` interpreter lifetimes sharing the directory."""
    work = tempfile.mkdtemp(prefix="vh_c_")
    try:
        cache = os.path.join(work, "cache")
        env = dict(os.environ)
        env["PYTHONPATH"] = os.pathsep.join([os.environ.get("VERIF_REPO", "/repo"), os.path.join(VERIF, "harness"),
                                             os.path.join(VERIF, "harness", "standins")])
        sessions = scen["sessions"]
        chunks = [sessions] if processes <= 1 else [sessions[: len(sessions) // 2], sessions[len(sessions) // 2:]]
        chunks = [c for c in chunks if c]
        outs = []
        first = 0
        for ci, chunk in enumerate(chunks):
            wd = os.path.join(work, "p%d" % ci)
            os.makedirs(wd)
            wit = os.path.join(work, "witness.log")   # one path for all interpreter lifetimes: it is an argument of the calls
            skip = len(open(wit).read().splitlines()) if os.path.exists(wit) else 0
            sc = dict(scen, sessions=chunk, cache_dir=cache, workdir=wd, first_call_id=first, witness=wit, _witness_skip=skip)
            first += sum(len(s) for s in chunk)
            sp, op = os.path.join(wd, "scen.json"), os.path.join(wd, "out.json")
            json.dump(sc, open(sp, "w"))
            with open(os.path.join(wd, "stdout"), "w") as so, open(os.path.join(wd, "stderr"), "w") as se:
                p = subprocess.Popen([PY, "-m", "vh.cache_runner", sp, op], stdout=so, stderr=se, stdin=subprocess.DEVNULL,
                                     env=env, cwd=wd, start_new_session=True)
                try:
                    rc = p.wait(timeout=scen.get("timeout", 60) + 30)
                except subprocess.TimeoutExpired:
                    rc = -9
                try:
                    os.killpg(p.pid, signal.SIGKILL)
                except Exception:  # noqa
                    pass
            if not os.path.exists(op):
                raise InfraError("cache runner produced no output: rc=%s %s" % (rc, open(os.path.join(wd, "stderr")).read()[-1500:]))
            o = json.load(open(op))
            o["rc"] = rc
            outs.append(o)
        return {"runs": outs}
    finally:
        shutil.rmtree(work, ignore_errors=True)


def run_many(scens, jobs=8, processes=None):
    def one(s):
        return run_history(s, processes=s.get("_processes", 1))

    with ThreadPoolExecutor(max_workers=jobs) as pool:
        return list(pool.map(one, scens))


class MapError(Exception):
    def __init__(self, msg, event=None):
        super().__init__(msg)
        self.event = event


def map_run(events):
    """-> list of sessions: {"todos": {role: [call ids]}, "labels": [(role, label)], "keys": {call id: key}, "set": {call id}}"""
    sessions = []
    cur = None
    st = {}
    for ev in events:
        op, th = ev["op"], ev["th"]
        if op == "session_begin":
            cur = {"todos": {}, "labels": [], "keys": {}, "roles": []}
            sessions.append(cur)
            continue
        if cur is None or not th.startswith("worker:"):
            continue
        w = st.setdefault(th, {"cur": None, "mode": "idle", "key": None})
        if op == "get" and ev.get("kind") == "task":
            w.update(cur=ev["i"], mode="got", key=None)
            if th not in cur["todos"]:
                cur["todos"][th] = []
                cur["roles"].append(th)
            cur["todos"][th].append(ev["i"])
        elif op == "key" and w["mode"] == "got":
            w["key"] = ev["key"]
            cur["keys"][w["cur"]] = ev["key"]
        elif op == "listdir" and w["mode"] == "got":
            if w["key"] is None:
                raise MapError("listdir before the key was computed", ev)
            # the look-up; which label it is (look / lookCancelled) is decided by the set_running_or_notify_cancel that follows
            w["hit"] = (w["key"] + ".h5out") in ev["files"]
            w["mode"] = "looked"
            w["slot"] = [th, None]                  # the label takes its place in the order HERE (the listing is the look-up)
            cur["labels"].append(w["slot"])
        elif op == "srn" and w["mode"] == "looked":
            if ev.get("r"):
                w["slot"][1] = "look"
                w["mode"] = "hit" if w["hit"] else "missed"
            else:
                w["slot"][1] = "lookCancelled"
                cur.setdefault("dropped", []).append(w["cur"])
                w["mode"] = "idle"
        elif op == "recv" and w["mode"] == "looked":
            raise MapError("call sent to the worker process without set_running_or_notify_cancel", ev)
        elif op == "recv" and w["mode"] == "missed":
            if not ev.get("ok"):
                raise MapError("worker received an error", ev)
            cur["labels"].append((th, "compute"))
            w["mode"] = "computed"
        elif op == "h5" and w["mode"] in ("computed", "creating"):
            final = ev["file"] == (w["key"] or "") + ".h5out"
            if final and ev["kind"] == "open_a" and w["mode"] == "computed":
                cur["labels"].append((th, "create"))      # entry visible under the final name before its output
                w["mode"] = "creating"
            elif final and ev["kind"] == "close" and w["mode"] == "creating":
                cur["labels"].append((th, "write"))
                w["mode"] = "written"
        elif op == "rename" and w["mode"] == "computed":
            if ev["dst"] != (w["key"] or "") + ".h5out":
                raise MapError("rename to an unexpected name", ev)
            cur["labels"].append((th, "write"))
            w["mode"] = "written"
        elif op == "set_result":
            if w["mode"] == "looked" and w.get("hit"):
                w["slot"][1] = "look"                   # hit path without a cancelled-check (code before fix 9f1f260)
                w["mode"] = "hit"
            if w["mode"] not in ("hit", "written"):
                raise MapError("set_result in worker state " + w["mode"], ev)
            if ev["i"] != w["cur"]:
                raise MapError("set_result for another call", ev)
            w["mode"] = "idle"
        elif op in ("set_exception",):
            raise MapError("worker failed a future: " + str(ev.get("exc")), ev)
        elif op == "thread_end" and ev.get("exc"):
            raise MapError("worker thread died: " + str(ev.get("msg")), ev)
    for sess in sessions:
        # a look-up whose outcome the trace does not show (it ends there) is left out
        sess["labels"] = [(a, b) for a, b in sess["labels"] if b is not None]
    return sessions


def canon(v):
    return json.dumps(v, sort_keys=True)


def judge(model, scen, out):
    """-> {"diff": ..., "oracles": [...], "info": {...}}"""
    oracles, info = [], {}
    calls = [c for s in scen["sessions"] for c in s]
    expected = {}
    from .cache_runner import expected as exp_of

    for i, c in enumerate(calls):
        expected[i] = canon(json.loads(json.dumps(exp_of(c))))
    # ---- observations: values, executions, files
    results = {}
    files_hist = []
    hang = False
    for run in out["runs"]:
        hang = hang or run["obs"].get("hang") or run.get("rc") not in (0,)
        for sess in run["obs"]["sessions"]:
            for k, r in sess["results"].items():
                results[int(k)] = r
            files_hist.append(sess["files_after"])
    if hang:
        oracles.append({"oracle": "cache_hang"})
    cancelled_ok = set()
    for run in out["runs"]:
        for sess in run["obs"]["sessions"]:
            for k, c in (sess.get("cancels") or {}).items():
                if c:
                    cancelled_ok.add(int(k))
    for i, r in sorted(results.items()):
        if i in cancelled_ok:
            if not r.get("cancelled"):
                oracles.append({"oracle": "cache_cancelled_call_not_cancelled", "i": i, "got": r})
            continue
        if not r.get("ok"):
            oracles.append({"oracle": "cache_call_failed", "i": i, "got": r})
        elif canon(r["value"]) != expected[i]:
            oracles.append({"oracle": "cache_wrong_value", "i": i, "got": r["value"], "expected": json.loads(expected[i])})
    # entries never removed or altered (C09)
    for a, b in zip(files_hist, files_hist[1:]):
        for fn, sha in a.items():
            if fn.endswith(".h5out") and fn not in b:
                oracles.append({"oracle": "cache_entry_removed", "file": fn})
            elif fn.endswith(".h5out") and b[fn] != sha:
                oracles.append({"oracle": "cache_entry_altered", "file": fn})
    # ---- traces -> labels
    diff = None
    sessions, keys = [], {}
    try:
        for run in out["runs"]:
            ms = map_run(run["events"])
            for s in ms:
                keys.update(s["keys"])
            sessions += ms
    except MapError as e:
        diff = {"kind": "unmapped_event", "detail": str(e), "event": e.event}
    # keys straight from the events (independent of the label mapping, which may have stopped at a difference)
    for run in out["runs"]:
        cur = {}
        for ev in run["events"]:
            th = ev.get("th", "")
            if ev["op"] == "get" and ev.get("kind") == "task" and th.startswith("worker:"):
                cur[th] = ev["i"]
            elif ev["op"] == "key" and th in cur:
                keys.setdefault(cur[th], ev["key"])
    # two different calls sharing a key (C08) / identical calls with different keys (C09)
    bykey = {}
    for i, k in keys.items():
        bykey.setdefault(k, set()).add(expected[i] + "|" + canon([calls[i]["fn"], calls[i]["arg"], calls[i].get("kw")]))
    for k, ids in bykey.items():
        if len(ids) > 1:
            oracles.append({"oracle": "cache_key_collision", "key": k, "calls": sorted(ids)})
    byident = {}
    for i, k in keys.items():
        byident.setdefault(canon([calls[i]["fn"], calls[i]["arg"], calls[i].get("kw")]), set()).add(k)
    for ident, ks in byident.items():
        if len(ks) > 1:
            oracles.append({"oracle": "cache_key_unstable", "call": ident, "keys": sorted(ks)})
    # re-execution after completion (C09): witness lines vs. completion times are approximated by
    # session boundaries and by the model: a call whose key was complete in the directory when it was
    # looked up must not execute -> covered by trace validation (a hit emits no compute); here: per
    # session history, a call class executed in a later session than one in which it completed
    done_classes = set()
    wit = []
    for run in out["runs"]:
        wit += run.get("witness", [])
    info["executions"] = len(wit)
    execs_by_class = {}
    for line in wit:
        p = line.split(" ")
        execs_by_class.setdefault(canon([int(p[0][1:]), int(p[1]), None if p[2] == "None" else int(p[2])]), 0)
        execs_by_class[canon([int(p[0][1:]), int(p[1]), None if p[2] == "None" else int(p[2])])] += 1
    info["exec_by_class"] = execs_by_class
    # re-execution after completion (C09), from the linearised trace: a call SUBMITTED after a future of the same key had
    # already received its result, and nevertheless handed to a worker process
    for run in out["runs"]:
        completed_at, put_at, sent, cur = {}, {}, set(), {}
        for ev in run["events"]:
            th = ev.get("th", "")
            if ev["op"] == "put" and ev.get("kind") == "task" and ev.get("i") is not None and ev["i"] not in put_at:
                put_at[ev["i"]] = ev["n"]
            elif ev["op"] == "get" and ev.get("kind") == "task" and th.startswith("worker:"):
                cur[th] = ev["i"]
            elif ev["op"] == "set_result" and th.startswith("worker:") and ev["i"] in keys:
                completed_at.setdefault(keys[ev["i"]], ev["n"])
            elif ev["op"] == "send" and ev.get("kind") == "task" and th.startswith("worker:") and cur.get(th) is not None:
                sent.add(cur[th])
        for j in sorted(sent):
            k = keys.get(j)
            if k in completed_at and put_at.get(j, -1) > completed_at[k]:
                oracles.append({"oracle": "cache_reexecution_after_completion", "i": j, "key": k})
    if diff is None:
        keyids = {k: n for n, k in enumerate(sorted(set(keys.values())))}
        valids = {v: n for n, v in enumerate(sorted(set(expected.values())))}
        ncalls = len(calls)
        req_sessions = []
        for s in sessions:
            roles = s["roles"]
            req_sessions.append({"todos": [s["todos"][r] for r in roles],
                                 "labels": [{"w": roles.index(r), "l": l} for r, l in s["labels"]]})
        rep = model.ask("cache_replay", atomic=bool(scen.get("_atomic", True)),
                        keyOf=[keyids.get(keys.get(i), 10**6 + i) for i in range(ncalls)],
                        evalOf=[valids[expected[i]] for i in range(ncalls)], sessions=req_sessions)
        info["labels"] = sum(len(s["labels"]) for s in sessions)
        info["lookCancelled"] = sum(1 for s in sessions for _, l in s["labels"] if l == "lookCancelled")
        if not rep["accepted"]:
            diff = {"kind": "trace_rejected", "session": rep["session"], "index": rep["index"],
                    "labels": req_sessions[rep["session"]]["labels"][: rep["index"] + 1][-8:]}
        else:
            # model results vs observed
            mres = {}
            for s in rep["sessions"]:
                for c, v in s["results"]:
                    mres[c] = v
            for i, r in results.items():
                if i in mres and r.get("ok"):
                    want = mres[i]
                    got = valids.get(canon(r["value"]))
                    if r["value"] is None and want is None:
                        continue
                    if want != got:
                        diff = {"kind": "result_differs_from_model", "i": i, "model": want, "impl": r["value"]}
                        break
            mdropped = set()
            for s_ in rep["sessions"]:
                mdropped.update(s_.get("dropped", []))
            if diff is None and mdropped != cancelled_ok:
                diff = {"kind": "dropped_differs_from_model", "model": sorted(mdropped), "impl_cancel_returned_true": sorted(cancelled_ok)}
            # executions per class = number of compute labels per class (model) — exact re-execution check
            ncompute = sum(1 for s in sessions for _, l in s["labels"] if l == "compute")
            if diff is None and ncompute != len(wit):
                oracles.append({"oracle": "cache_execution_count", "computes_in_trace": ncompute, "witness": len(wit)})
    return {"diff": diff, "oracles": oracles, "info": info}


_confirms = [0]


def judge_confirmed(model, scen, out):
    """judge(); a verdict that rests on a time limit (cache_hang) counts only when it happens again, alone, with three times
    the limit (a loaded machine is slow); at most six such re-runs per check."""
    j = judge(model, scen, out)
    if any(x["oracle"] == "cache_hang" for x in j["oracles"]):
        if _confirms[0] >= 6:
            j["oracles"] = [x for x in j["oracles"] if x["oracle"] != "cache_hang"]
            j["unconfirmed_hang_dropped"] = True
            return j
        _confirms[0] += 1
        s2 = dict(scen, timeout=3 * scen.get("timeout", 60))
        o2 = run_many([s2], jobs=1)[0]
        return judge(model, s2, o2)
    return j
