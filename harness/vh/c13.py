"""C13 — file-based executor.  Lean: Props/C13.lean (file_values, session_start, loop_never_dies,
existing_result_suppresses_launch over the transition system FileExec; counterexample for D14; the
dropped duplicate D13 as a proved run of the model).  Tie: session histories on the real
FileExecutor with the subprocess back end and the h5py stand-in; the cross-process persistence log
is replayed through FileExec.step (trace validation); values against sequential evaluation."""
from __future__ import annotations

import json

from .common import Ctx, InfraError, ast_hashes, run_check
from . import file_engine as fe

ANCHORS = {
    "executorlib/cache/shared.py": ["execute_tasks_h5", "_convert_args_and_kwargs", "_check_task_output", "_get_execute_command", "FutureItem"],
    "executorlib/cache/executor.py": ["FileExecutor"],
    "executorlib/cache/backend.py": ["backend_load_file", "backend_write_file", "backend_execute_task_in_file"],
    "executorlib/cache/subprocess_spawner.py": ["execute_in_subprocess", "terminate_subprocess"],
    "executorlib/standalone/hdf.py": ["dump", "load", "get_output"],
}

CORPUS = [
    # D14 witness (fixed): session 2 has a new call depending on a producer already in the cache directory
    {"sessions": [[{"arg": 10, "deps": []}], [{"arg": 10, "deps": []}, {"arg": 100, "deps": [0]}]], "seed": 1, "kills": [None, None]},
    # diamond, warm restart, superset
    {"sessions": [[{"arg": 1, "deps": []}, {"arg": 10, "deps": [0]}, {"arg": 100, "deps": [0], "kwdep": 0}, {"arg": 1, "deps": [1, 2]}],
                  [{"arg": 1, "deps": []}, {"arg": 10, "deps": [0]}, {"arg": 100, "deps": [0], "kwdep": 0}, {"arg": 1, "deps": [1, 2]},
                   {"arg": 10, "deps": [3]}]], "seed": 2, "kills": [None, None]},
    # D13 (known finding): the same call submitted again while the first copy is in flight
    {"sessions": [[{"arg": 1, "deps": []}, {"arg": 1, "deps": []}, {"arg": 10, "deps": [0]}]], "seed": 3, "kills": [None]},
    # one call taking, in this order, a future still in flight and a future that finished long ago (no longer tracked by the loop)
    {"sessions": [[{"arg": 1, "deps": [], "wait": True, "pause": 150}, {"arg": 10, "deps": []}, {"arg": 100, "deps": [1, 0]},
                   {"arg": 1000, "deps": [1], "kwdep": 0}]], "seed": 5, "kills": [None]},
    # the same call submitted again after it finished
    {"sessions": [[{"arg": 1, "deps": [], "wait": True, "pause": 120}, {"arg": 1, "deps": []}]], "seed": 4, "kills": [None]},
]

RELEVANT = {"file_wrong_value", "file_lost_future", "file_loop_thread_dead", "file_shutdown_raised", "file_hang", "file_key_collision",
            "file_lost_future_duplicate", "file_entry_incomplete", "file_entry_wrong"}


def evaluate(ctx: Ctx, prop: str, hists, outs, relevant, known_region="D13"):
    m = ctx.model
    diffs, fails, validated, known = [], [], 0, 0
    confirmations = [0]
    for h, o in zip(hists, outs):
        j = fe.judge(m, h, o)
        ncalls = [len(s) for s in h["sessions"]]
        ctx.case({"sessions": ncalls, "kills": h.get("kills")}, nontrivial=sum(ncalls) >= 2)
        ctx.count("hist.sessions.%d" % len(ncalls))
        if any(c.get("deps") for s in h["sessions"] for c in s):
            ctx.count("hist.with_dependencies")
        if any(h.get("kills") or []):
            ctx.count("hist.with_kill")
        rel = [x for x in j["oracles"] if x["oracle"] in relevant]
        timing = [x for x in rel if x["oracle"] != "file_lost_future_duplicate"]
        if timing and all(x["oracle"] in ("file_lost_future", "file_hang") for x in timing):
            # decided by a time limit only: counts when it happens again, alone, with five times the limits (a loaded machine
            # is slow); at most four such re-runs per check, further ones are not judged
            if confirmations[0] < 4:
                confirmations[0] += 1
                h2 = json.loads(json.dumps(h))
                h2["call_timeout"] = 5 * h.get("call_timeout", 12)
                h2["timeout"] = 4 * h.get("timeout", 45)
                o2 = fe.run_many([h2], jobs=1)[0]
                j2 = fe.judge(m, h2, o2)
                rel2 = [x for x in j2["oracles"] if x["oracle"] in relevant]
                if not [x for x in rel2 if x["oracle"] != "file_lost_future_duplicate"]:
                    ctx.count("timing_oracle_not_confirmed")
                    rel = [x for x in rel if x["oracle"] == "file_lost_future_duplicate"]
                else:
                    h, o, j, rel = h2, o2, j2, rel2
            else:
                ctx.count("timing_oracle_unconfirmed_not_judged")
                rel = [x for x in rel if x["oracle"] == "file_lost_future_duplicate"]
        dup = [x for x in rel if x["oracle"] == "file_lost_future_duplicate"]
        rest = [x for x in rel if x["oracle"] != "file_lost_future_duplicate"]
        if dup:
            if any(k.get("status") == "known" and k.get("signature", {}).get("region") == known_region for k in ctx.known):
                known += 1
                for k in ctx.known:
                    if k.get("signature", {}).get("region") == known_region and k not in ctx.known_hits:
                        ctx.known_hits.append(k)
                # the dropped future also makes the session slower; nothing else may be wrong
            else:
                rest += dup
        if rest:
            fails.append((h, j, rest))
        if j["diff"] is not None:
            diffs.append((h, j))
        else:
            validated += 1
    ctx.oblige("correspondence: the persistence log of every session is a run of FileExec.step (trace validation), results and loop-thread "
               "liveness as the model says", not diffs, f"{validated} histories accepted")
    ctx.oblige(f"oracles of {prop} hold on every history outside the listed known region", not fails, f"{known} histories only inside region {known_region}")
    if fails:
        h, j, rest = fails[0]
        ctx.violation({"kind": "file_oracle", "oracles": sorted(set(x["oracle"] for x in rest)), "failing_input": True},
                      {"what": "file-mode run violates the property", "history": h, "oracles": rest[:4], "difference": j["diff"]})
    elif diffs:
        h, j = diffs[0]
        ctx.violation({"kind": "correspondence", "failing_input": False},
                      {"what": "persistence log is not a run of the Lean model FileExec (theorems of Props/%s.lean no longer shown to apply); no failing input found" % prop,
                       "correspondence": "engine C: vh.file_engine.map_session + modeld file_replay (FileExec.step)",
                       "theorems_no_longer_applicable": "ExecModel/Props/%s.lean" % prop, "history": h, "difference": j["diff"]}, no_input=True)
    return validated


def body(ctx: Ctx):
    if ctx.replay_file:
        hists = [json.load(open(ctx.replay_file))["history"]]
    else:
        n = 36 if ctx.tier == "quick" else 360
        hists = [json.loads(json.dumps(h)) for h in CORPUS] + [fe.gen_history(ctx.rng) for _ in range(n)]
    for h in hists:
        h.setdefault("call_timeout", 6)
    outs = fe.run_many(hists, jobs=8)
    validated = evaluate(ctx, "C13", hists, outs, RELEVANT)
    if not ctx.replay_file:
        # hypothesis KeyOK of file_values (calls sharing a task key have the same value) against the key function the
        # file executor uses: pairs differing in one component and a sweep of short-lived functions
        from .c08 import key_pairs

        badk = key_pairs(ctx)
        ctx.oblige("hypothesis KeyOK: serialize_funct_h5 gives different calls different task keys (pairs and function sweep)", not badk)
        if badk:
            ctx.violation({"kind": "task_key_collision", "failing_input": True},
                          {"what": "two different calls get the same task key: the later future is completed from the other call's result "
                                   "file (hypothesis KeyOK of theorem file_values does not hold for the code)", "pairs": badk[:3]})
    return {
        "rule": "session histories of the real FileExecutor (subprocess back end): 1-3 sessions (interpreter lifetimes) over one directory, "
                "1-5 calls per session with futures of earlier calls as positional / keyword top-level arguments, identical calls repeated "
                "within a session (in flight and after completion) and across sessions (warm: same calls, superset, new), pauses / waits "
                "steering completion relative to the loop's polling; oracles: values = sequential evaluation, every future done, loop thread "
                "alive, shutdown raised nothing; non-trivial = >= 2 calls",
        "traces_validated_against_impl": validated,
        "ast_hashes": ast_hashes(ANCHORS),
        "trusted_base_extra": ["h5py stand-in; os.rename atomic; cross-process persistence log linearised by a file lock (vh_fs)",
                               "the queuing-system back end (pysqa) is out of reach; only the subprocess back end is exercised"],
    }


def main(argv=None):
    run_check("C13", body, argv)


if __name__ == "__main__":
    main()
