"""C15 — init_function presets.  Engine A on `call_funct` (real Python binding of generated
functions vs. Preset.callFunct / C15.specCall), plus a block-allocation executor with an
init_function on real worker processes (presets persist over calls)."""
from __future__ import annotations

import itertools
import re
import tempfile

from .common import Ctx, InfraError, ast_hashes, call_with_timeout, kill_descendants, run_check

ANCHORS = {
    "executorlib/standalone/interactive/backend.py": ["call_funct", "_update_dict_delta"],
    "executorlib/backend/interactive_serial.py": ["main"],
}
NAMES = ["a", "b", "c", "d", "e"]
EXTRA = ["zz", "self", "kwargs", "args"]
# parameter names that coincide with names used inside executorlib's own call path (call_funct, the worker scripts, submit)
HOSTILE = ["fn", "funct", "memory", "input_dict", "args", "kwargs", "self", "function"]


def make_fn(sig):
    """sig: list of (name, default or None-marker)."""
    parts = []
    for n, d in sig:
        parts.append(n if d is None else f"{n}={d!r}")
    src = "def f(" + ", ".join(parts) + "):\n    return dict(locals())\n"
    g = {"__name__": "dyn_c15"}
    exec(src, g)
    return g["f"], src


def classify_type_error(e: TypeError):
    s = str(e)
    m = re.search(r"got an unexpected keyword argument '(\w+)'", s)
    if m:
        return {"err": "unexpected", "names": [m.group(1)]}
    m = re.search(r"got multiple values for argument '(\w+)'", s)
    if m:
        return {"err": "multiple", "names": [m.group(1)]}
    if re.search(r"takes (from )?\d+( to \d+)? positional arguments? but \d+ (was|were) given", s):
        return {"err": "toomany", "names": []}
    m = re.search(r"missing \d+ required positional arguments?: (.*)$", s)
    if m:
        return {"err": "missing", "names": re.findall(r"'(\w+)'", m.group(1))}
    return {"err": "other", "msg": s}


def gen_case(rng):
    n = rng.choice([0, 1, 2, 2, 3, 3, 4, 5])
    names = NAMES[:n]
    if rng.random() < 0.2:
        names = rng.sample(HOSTILE, k=n)
    ndef = rng.randrange(0, n + 1)
    sig = [(nm, None if i < n - ndef else 100 + i) for i, nm in enumerate(names)]
    npos = rng.choice([0, 0, 1, 1, 2, 3, n, n + 1]) if rng.random() < 0.9 else rng.randrange(0, 7)
    args = [10 + i for i in range(npos)]
    kwpool = names + EXTRA[:1]
    kwargs = []
    for nm in rng.sample(kwpool, k=len(kwpool)):
        r = rng.random()
        idx = names.index(nm) if nm in names else None
        p = 0.55 if (idx is not None and idx >= npos) else 0.06
        if r < p:
            kwargs.append([nm, 20 + len(kwargs)])
    mempool = names + [x for x in EXTRA if x not in names]
    mode = rng.choice(["none", "empty", "partial", "partial", "full", "disjoint"])
    if mode == "none":
        mem = None
    elif mode == "empty":
        mem = []
    elif mode == "full":
        mem = [[nm, 30 + i] for i, nm in enumerate(mempool)]
    elif mode == "disjoint":
        mem = [[nm, 30 + i] for i, nm in enumerate(EXTRA)]
    else:
        mem = [[nm, 30 + i] for i, nm in enumerate(mempool) if rng.random() < 0.5]
        rng.shuffle(mem)
    return {"sig": sig, "args": args, "kwargs": kwargs, "mem": mem}


def to_model(case, op, **kw):
    return dict(op=op, sig=[{"name": n} if d is None else {"name": n, "dflt": d} for n, d in case["sig"]],
                args=case["args"], kwargs=case["kwargs"], mem=case["mem"], **kw)


def run_impl(case, call_funct):
    fn, _ = make_fn(case["sig"])
    inp = {"fn": fn, "args": tuple(case["args"]), "kwargs": dict(case["kwargs"])}
    mem = None if case["mem"] is None else dict(case["mem"])
    try:
        res = call_funct(input_dict=inp, funct=None, memory=mem)
        return {"ok": [[k, v] for k, v in res.items()]}
    except TypeError as e:
        return classify_type_error(e)


def canon(r):
    if "ok" in r:
        return {"ok": [list(x) for x in r["ok"]]}
    if r.get("err") == "missing":
        return {"err": "missing", "names": sorted(r["names"])}
    return r


def _init_j4():
    return {"b": 4, "c": 3, "zz": 9}


def _init_hostile():
    return {"fn": 4, "memory": 3, "funct": 8, "input_dict": 1, "zz": 9}


def body(ctx: Ctx):
    from executorlib.standalone.interactive.backend import call_funct

    m = ctx.model
    n = 3000 if ctx.tier == "quick" else 40000
    corpus = [
        {"sig": [("a", None), ("b", None), ("c", 102)], "args": [1, 2], "kwargs": [], "mem": [["b", 4], ["c", 3]]},  # D8 witness
        {"sig": [("a", None), ("b", None), ("c", 102)], "args": [1], "kwargs": [["c", 7]], "mem": [["b", 4], ["c", 3], ["zz", 9]]},
        {"sig": [("a", None)], "args": [], "kwargs": [], "mem": [["zz", 1]]},
    ]
    cases = corpus + [gen_case(ctx.rng) for _ in range(n)]
    impl = [canon(run_impl(c, call_funct)) for c in cases]
    model = [canon(r) for r in m.ask_many([to_model(c, "call_funct", skip=True) for c in cases])]
    spec = [canon(r) for r in m.ask_many([to_model(c, "spec_call") for c in cases])]
    diffs = []
    for c, i, mo, sp in zip(cases, impl, model, spec):
        nontriv = c["mem"] is not None and any(k in [s[0] for s in c["sig"]] for k, _ in c["mem"])
        ctx.case({"sig": c["sig"], "args": c["args"], "kwargs": c["kwargs"], "mem": c["mem"]}, nontrivial=nontriv)
        ctx.count("mem." + ("none" if c["mem"] is None else "some"))
        ctx.count("outcome." + ("ok" if "ok" in i else i["err"]))
        if c["mem"] is not None and any(k in [s[0] for s in c["sig"]][: len(c["args"])] for k, _ in c["mem"]):
            ctx.count("preset_for_positionally_passed_param")
        if mo != sp:
            raise InfraError(f"model callFunct(true) differs from specCall on {c} (contradicts theorem callFunct_eq_spec)")
        if i != mo:
            diffs.append({"kind": "call_funct", "case": c, "impl": i, "model": mo, "spec": sp, "failing": i != sp})
    if ctx.distribution.get("preset_for_positionally_passed_param", 0) < 50 or ctx.distribution.get("outcome.ok", 0) < 200:
        raise InfraError(f"generator too thin: {ctx.distribution}")

    # ---- sequences of calls on ONE preset dictionary, as the worker loop makes them: the presets are what init_function
    # returned for the whole life of the worker (the model passes them by value: nothing a call does can change them)
    nseq = 150 if ctx.tier == "quick" else 2000
    seq_diffs = []
    for sidx in range(nseq):
        first = gen_case(ctx.rng)
        while first["mem"] is None:
            first = gen_case(ctx.rng)
        presets = [list(x) for x in first["mem"]]
        memory = dict(presets)                       # the one long-lived object
        seq = [first] + [dict(gen_case(ctx.rng), mem=presets) for _ in range(ctx.rng.choice([2, 3, 5]))]
        if ctx.rng.random() < 0.5:
            # calls of one function with varying keyword subsets (what a worker typically sees)
            seq = [dict(c, sig=first["sig"]) for c in seq]
            for c in seq[1:]:
                names = [n for n, _ in first["sig"]]
                c["args"] = [ctx.rng.randrange(0, 9) for _ in range(ctx.rng.randrange(0, len(names) + 1))]
                c["kwargs"] = [[n, 40 + j] for j, n in enumerate(names[len(c["args"]):]) if ctx.rng.random() < 0.4]
        spec_seq = [canon(r) for r in m.ask_many([to_model(dict(c, mem=presets), "spec_call") for c in seq])]
        for k, (c, sp) in enumerate(zip(seq, spec_seq)):
            fn, _ = make_fn(c["sig"])
            inp = {"fn": fn, "args": tuple(c["args"]), "kwargs": dict(c["kwargs"])}
            try:
                res = call_funct(input_dict=inp, funct=None, memory=memory)
                got = canon({"ok": [[a, b] for a, b in res.items()]})
            except TypeError as e:
                got = canon(classify_type_error(e))
            ctx.case({"seq": sidx, "k": k, "sig": c["sig"], "args": c["args"], "kwargs": c["kwargs"], "mem": presets}, nontrivial=k > 0)
            ctx.count("sequence_calls")
            if got != sp or memory != dict(presets):
                seq_diffs.append({"kind": "call_funct_sequence", "sequence": [{"sig": x["sig"], "args": x["args"], "kwargs": x["kwargs"]} for x in seq[: k + 1]],
                                  "presets": presets, "impl": got, "model": sp, "spec": sp, "memory_after": sorted(memory.items()),
                                  "failing": True, "case": c})
                break
    if seq_diffs:
        diffs.extend(seq_diffs[:3])

    # ---- executor level: init_function on real workers, presets persist over calls --------------
    import executorlib

    n_exec = 4 if ctx.tier == "quick" else 12
    exec_cases = 0
    for k in range(n_exec):
        hostile = k % 4 >= 2
        if hostile:
            # parameters named like the names executorlib uses on its own call path, presets for them
            sig = [("a", None), ("fn", None), ("memory", 102), ("funct", 5)]
            mem = [["fn", 4], ["memory", 3], ["funct", 8], ["input_dict", 1], ["zz", 9]]
            init = _init_hostile
            ctx.count("executor_with_hostile_parameter_names")
        else:
            sig = [("a", None), ("b", None), ("c", 102)]
            mem = [["b", 4], ["c", 3], ["zz", 9]]
            init = _init_j4
        fn, _ = make_fn(sig)
        calls = []
        for _ in range(5):
            npos = ctx.rng.choice([1, 1, 2, 3])
            last = sig[2][0]
            kw = [[last, 77]] if (npos < 3 and ctx.rng.random() < 0.4) else []
            calls.append({"sig": sig, "args": [10 + i for i in range(npos)], "kwargs": kw, "mem": mem})

        def go():
            out = []
            # every second executor has a cache directory: presets must work the same on the cached path (each call of this
            # part is a cache miss: distinct arguments)
            extra_kw = {"cache_directory": tempfile.mkdtemp(prefix="vh_c15_")} if k % 2 == 1 or k % 4 == 2 else {}
            if extra_kw:
                ctx.count("executor_with_cache_directory")
            exe = executorlib.Executor(max_workers=1, backend="local", block_allocation=True,
                                       init_function=init, disable_dependencies=bool(k % 2), **extra_kw)
            try:
                pin = exe.submit(_where).result(timeout=60)
                for c in calls:
                    f = exe.submit(fn, *c["args"], **dict(c["kwargs"]))
                    try:
                        out.append({"ok": [[kk, vv] for kk, vv in f.result(timeout=60).items()]})
                    except TypeError as e:
                        out.append(classify_type_error(e))
                        break        # a failed call ends a block-allocation worker thread: nothing later would be answered
                    except Exception as e:  # noqa
                        out.append({"err": "other", "msg": repr(e)})
                        break
            finally:
                try:
                    exe.shutdown(wait=False)
                except Exception:  # noqa
                    pass
            return pin, out

        st, val = call_with_timeout(go, 120)
        kill_descendants("interactive_serial.py")
        if st != "ok":
            # an executor that dies/hangs after a failed call is C05/C12 territory; here it only
            # limits what we can observe.  Report as a correspondence difference without input.
            diffs.append({"kind": "executor_run", "case": calls, "impl": f"{st}: {val!r}", "model": "5 replies", "failing": False})
            continue
        pin, out = val
        import os as _os

        if not pin.startswith(_os.environ.get("VERIF_REPO", "/repo") + "/"):
            raise InfraError(f"worker imported executorlib from {pin}")
        exp = [canon(r) for r in m.ask_many([to_model(c, "spec_call") for c in calls[: len(out)]])]
        for c, o, e in zip(calls, out, exp):
            exec_cases += 1
            ctx.case({"executor_call": c["args"], "kwargs": c["kwargs"]})
            ctx.count("executor_call")
            if canon(o) != e:
                diffs.append({"kind": "executor_call", "case": c, "impl": canon(o), "model": e, "spec": e, "failing": True})
                break

    ctx.oblige("correspondence: call_funct = Preset.callFunct true (= C15.specCall)", not any(d["kind"] == "call_funct" for d in diffs))
    ctx.oblige("correspondence: block executor with init_function follows specCall on every call of a worker", not any(d["kind"].startswith("executor") for d in diffs))
    seen = set()
    for d in diffs:
        sig = {"kind": d["kind"], "failing_input": bool(d["failing"])}
        if d["failing"] and isinstance(d["impl"], dict) and d["impl"].get("err") == "multiple" and "ok" in d.get("spec", {}):
            sig["witness"] = "preset-for-positional-parameter"
        key = tuple(sorted(sig.items()))
        if key in seen:
            continue
        seen.add(key)
        if d["failing"]:
            ctx.violation(sig, {"what": "implementation disagrees with the SPEC rule (C15.specCall) on this call", **d})
    if diffs and not ctx.violations and not ctx.known_hits:
        d = diffs[0]
        ctx.violation({"kind": d["kind"], "failing_input": False},
                      {"what": "correspondence broken, no failing input found", "broken": "correspondence " + d["kind"],
                       "theorems_no_longer_tied": ["ExecModel.C15.callFunct_eq_spec"], **d}, no_input=True)
    return {
        "rule": "cases = (signature of 0-5 positional-or-keyword parameters with a suffix of defaults, 0..n+1 positional args, keyword args mostly for unbound parameters plus occasional duplicates/unknown names, preset dict none/empty/partial/full/disjoint incl. undeclared keys); real Python binding of an exec-generated function returning locals(); non-trivial = preset dict overlaps the signature; distinct = sha1 of the case",
        "differences": len(diffs),
        "executor_calls": exec_cases,
        "ast_hashes": ast_hashes(ANCHORS),
        "trusted_base_extra": ["SPEC C15.specCall (the rule of the property, parameter by parameter) and the CPython binding rule Preset.bind (checked against real Python calls on every run)"],
    }


def _where():
    import executorlib

    return executorlib.__file__


def main(argv=None):
    run_check("C15", body, argv)


if __name__ == "__main__":
    main()
