"""C17 — worker wire protocol.  The real `interactive_serial.main` is driven over a real zmq PAIR
socket (in a thread, and as a real subprocess) with generated request sequences; the transcript of
replies is compared with `Wire.serve` (Lean), which theorem C17.one_reply_each characterises."""
from __future__ import annotations

import os
import subprocess
import sys
import threading
import time

from .common import Ctx, InfraError, ast_hashes, run_check

ANCHORS = {
    "executorlib/backend/interactive_serial.py": ["main"],
    "executorlib/standalone/interactive/communication.py": [
        "interface_connect", "interface_receive", "interface_send", "interface_shutdown"],
    "executorlib/standalone/interactive/backend.py": ["call_funct"],
}

SRC = '''
def f_ok(v):
    import builtins
    builtins._vh_count = getattr(builtins, "_vh_count", 0) + 1
    return v
class NotAnError(BaseException):
    pass
def f_raise(v, cls="ValueError"):
    import builtins
    builtins._vh_count = getattr(builtins, "_vh_count", 0) + 1
    # exceptions outside the Exception branch too (sys.exit() in a submitted function, KeyboardInterrupt, user BaseException)
    raise {"ValueError": ValueError, "SystemExit": SystemExit, "KeyboardInterrupt": KeyboardInterrupt, "NotAnError": NotAnError}[cls](v)
def f_preset(k):
    import builtins
    builtins._vh_count = getattr(builtins, "_vh_count", 0) + 1
    return k
def f_counter():
    import builtins
    n = getattr(builtins, "_vh_count", 0)
    builtins._vh_count = n + 1
    return n
def mk_init(mem):
    def init():
        return dict(mem)
    return init
class CallableObject:
    """a callable that is not a function: no __name__, no __qualname__ of its own"""
    def __init__(self, fn):
        self.fn = fn
    def __call__(self, *a, **kw):
        return self.fn(*a, **kw)
def f_big(v, nbytes):
    import builtins
    builtins._vh_count = getattr(builtins, "_vh_count", 0) + 1
    return (v, bytes([v % 251]) * nbytes)
'''


def fresh_funcs():
    g = {"__name__": "dyn_c17"}
    exec(SRC, g)
    return g


def gen_seq(rng, with_counter=False):
    n = rng.choice([1, 2, 3, 4, 5, 6, 8, 10, 12])
    seq = []
    kinds = ["init", "ok", "ok", "raise", "preset", "preset", "other", "shutdown"]
    if with_counter:
        # a preset call that fails to bind never runs its body, so it cannot be counted by the
        # interpreter-global counter: the two kinds are not mixed in one sequence
        kinds = [k for k in kinds if k != "preset"] + ["counter", "counter"]
    for i in range(n):
        k = rng.choice(kinds)
        if k == "shutdown" and rng.random() < 0.6 and i < n - 1:
            k = rng.choice(["ok", "init"] if with_counter else ["ok", "preset", "init"])
        if k == "init":
            keys = rng.choice([["k"], ["k"], ["z"], [], ["k", "z"]])
            seq.append({"t": "init", "mem": [[key, 100 * (i + 1) + j] for j, key in enumerate(keys)]})
        elif k == "ok":
            seq.append({"t": "ok", "v": 1000 + i})
            if rng.random() < 0.2:
                seq[-1]["callable"] = rng.choice(["partial", "object"])
        elif k == "raise":
            seq.append({"t": "raise", "v": 2000 + i})
            if rng.random() < 0.3:
                seq[-1]["cls"] = rng.choice(["SystemExit", "KeyboardInterrupt", "NotAnError"])
            if rng.random() < 0.3:
                seq[-1]["callable"] = rng.choice(["partial", "object"])
        elif k == "preset":
            seq.append({"t": "preset", "key": "k"})
        elif k == "counter":
            seq.append({"t": "counter"})
        elif k == "other":
            seq.append({"t": "other", "variant": rng.randrange(4)})
        else:
            seq.append({"t": "shutdown"})
    if rng.random() < 0.8 and not any(r["t"] == "shutdown" for r in seq):
        seq.append({"t": "shutdown"})
    return seq


def _wrap(fn, how, g):
    """the same call made through a functools.partial or through an instance with __call__ (callables without __name__)"""
    import functools

    if how == "partial":
        return functools.partial(fn)
    if how == "object":
        return g["CallableObject"](fn)
    return fn


def to_wire(req, g):
    d = _to_wire(req, g)
    if req.get("callable") and isinstance(d, dict) and "fn" in d and "init" not in d:
        d = dict(d, fn=_wrap(d["fn"], req["callable"], g))
    return d


def _to_wire(req, g):
    t = req["t"]
    if t == "init":
        return {"init": True, "fn": g["mk_init"](dict(req["mem"])), "args": (), "kwargs": {}}
    if t == "ok" and req.get("big"):
        return {"fn": g["f_big"], "args": (req["v"], req["big"]), "kwargs": {}}
    if t == "ok":
        return {"fn": g["f_ok"], "args": (req["v"],), "kwargs": {}}
    if t == "raise":
        return {"fn": g["f_raise"], "args": (), "kwargs": dict({"v": req["v"]}, **({"cls": req["cls"]} if req.get("cls") else {}))}
    if t == "preset":
        return {"fn": g["f_preset"], "args": (), "kwargs": {}}
    if t == "counter":
        return {"fn": g["f_counter"], "args": (), "kwargs": {}}
    if t == "shutdown":
        return {"shutdown": True, "wait": True}
    v = req["variant"]
    return [{"foo": 1}, {"shutdown": False}, {"init": False, "fn": g["f_ok"], "args": (1,), "kwargs": {}},
            {"fn": g["f_ok"]}][v]


def canon_reply(d):
    if "result" in d and isinstance(d["result"], tuple) and len(d["result"]) == 2 and isinstance(d["result"][1], bytes):
        v, blob = d["result"]            # f_big: the value counts when the payload arrived complete
        if blob == bytes([v % 251]) * len(blob):
            return {"result": v, "payload": len(blob)}
        return {"result": "corrupt payload of %d bytes" % len(blob)}
    if "result" in d:
        return {"result": d["result"]}
    e = d.get("error")
    if isinstance(e, ValueError) and len(e.args) == 1 and d.get("error_type") == "<class 'ValueError'>":
        return {"error": e.args[0]}
    if type(e).__name__ in ("SystemExit", "KeyboardInterrupt", "NotAnError") and len(e.args) == 1 and type(e).__name__ in str(d.get("error_type")):
        return {"error": e.args[0], "cls": type(e).__name__}
    if isinstance(e, TypeError) and d.get("error_type") == "<class 'TypeError'>":
        return {"error": "TypeError"}
    return {"error": [d.get("error_type"), repr(e)]}


def expected_of(model_replies, seq):
    """Pair the model's replies with request indices (bearing requests through first shutdown)."""
    idx = []
    for i, r in enumerate(seq):
        if r["t"] in ("ok", "raise", "preset", "counter", "shutdown"):
            idx.append(i)
        if r["t"] == "shutdown":
            break
    if len(idx) != len(model_replies):
        raise InfraError("model reply count contradicts theorem reply_count")
    out = []
    for i, rep in zip(idx, model_replies):
        rep = {"result": True} if "ack" in rep else rep
        if seq[i].get("cls") and "error" in rep:
            rep = dict(rep, cls=seq[i]["cls"])
        out.append([i, rep])
    return out


def drive(seq, mode):
    """Run one real worker on the sequence; returns (transcript [[idx, reply]], worker_ended, note)."""
    import cloudpickle
    import zmq

    g = fresh_funcs()
    ctxz = zmq.Context()
    sock = ctxz.socket(zmq.PAIR)
    port = sock.bind_to_random_port("tcp://*")
    proc = th = None
    if mode == "thread":
        from executorlib.backend.interactive_serial import main as worker_main

        th = threading.Thread(target=worker_main, kwargs={"argument_lst": ["--zmqport", str(port)]}, daemon=True)
        th.start()
    else:
        script = os.path.join(os.environ.get("VERIF_REPO", "/repo"), "executorlib", "backend", "interactive_serial.py")
        proc = subprocess.Popen([sys.executable, script, "--host", "localhost", "--zmqport", str(port)],
                                stdin=subprocess.DEVNULL, stdout=subprocess.DEVNULL, stderr=subprocess.DEVNULL)
    transcript = []
    note = ""
    dead = False
    silent = False
    try:
        for i, req in enumerate(seq):
            try:
                if not dead and not sock.poll(300 if silent else 10000, zmq.POLLOUT):
                    silent = True     # the peer is gone (a worker that died takes its end of the PAIR socket with it): nothing more can be sent
                    continue
                sock.send(cloudpickle.dumps(to_wire(req, g)), flags=zmq.NOBLOCK)
            except zmq.Again:
                continue
            bearing = req["t"] in ("ok", "raise", "preset", "counter", "shutdown") and not dead
            tmo = (30000 if not silent else 300) if bearing else 25
            answered = False
            while True:
                if sock.poll(tmo):
                    transcript.append([i, canon_reply(cloudpickle.loads(sock.recv()))])
                    answered = True
                    tmo = 25  # any further reply to the same request is spurious; look briefly
                    continue
                break
            if bearing and not answered:
                silent = True   # the worker stopped answering: the transcript already differs, do not wait 30 s per later request
            if req["t"] == "shutdown":
                dead = True
        ended = True
        if th is not None:
            th.join(3)
            ended = not th.is_alive()
        if proc is not None:
            try:
                rc = proc.wait(30)
                ended = True
                note = f"rc={rc}"
            except subprocess.TimeoutExpired:
                ended = False
        has_shutdown = any(r["t"] == "shutdown" for r in seq)
        if not has_shutdown:
            ended_expected = False
        else:
            ended_expected = True
        return transcript, ended, ended_expected, note
    finally:
        if proc is not None and proc.poll() is None:
            proc.kill()
        if th is not None and th.is_alive():
            # release the in-thread worker so that it does not linger
            try:
                sock.send(cloudpickle.dumps({"shutdown": True, "wait": True}), flags=zmq.NOBLOCK)
                th.join(1)
            except Exception:  # noqa
                pass
        sock.close(linger=0)
        ctxz.term()


def drive_pipelined(seq):
    """A real worker subprocess; ALL requests are sent before any reply is read (as tests/test_backend_serial.py does), some
    calls return several MB.  Returns (replies in arrival order, worker ended, exit note)."""
    import cloudpickle
    import zmq

    g = fresh_funcs()
    ctxz = zmq.Context()
    sock = ctxz.socket(zmq.PAIR)
    port = sock.bind_to_random_port("tcp://*")
    script = os.path.join(os.environ.get("VERIF_REPO", "/repo"), "executorlib", "backend", "interactive_serial.py")
    proc = subprocess.Popen([sys.executable, script, "--host", "localhost", "--zmqport", str(port)],
                            stdin=subprocess.DEVNULL, stdout=subprocess.DEVNULL, stderr=subprocess.DEVNULL)
    replies = []
    try:
        for req in seq:
            if not sock.poll(10000, zmq.POLLOUT):
                break
            sock.send(cloudpickle.dumps(to_wire(req, g)), flags=zmq.NOBLOCK)
        nbear = sum(1 for r in seq if r["t"] in ("ok", "raise", "preset", "counter", "shutdown"))
        tmo = 30000
        while sock.poll(tmo):
            replies.append(canon_reply(cloudpickle.loads(sock.recv())))
            tmo = 30000 if len(replies) < nbear else 100
        try:
            rc = proc.wait(30)
            ended, note = True, f"rc={rc}"
        except subprocess.TimeoutExpired:
            ended, note = False, "running"
        return replies, ended, note
    finally:
        if proc.poll() is None:
            proc.kill()
        sock.close(linger=0)
        ctxz.term()


def gen_pipelined(rng, with_counter):
    """A sequence ending with its only shutdown; one to three calls return 1-16 MB, the last call before the shutdown often 32-96 MB."""
    seq = [r for r in gen_seq(rng, with_counter) if r["t"] != "shutdown"]
    oks = [r for r in seq if r["t"] == "ok"]
    if not oks or rng.random() < 0.7:
        seq.append({"t": "ok", "v": 3000 + len(seq)})
        oks.append(seq[-1])
    for r in rng.sample(oks, k=min(len(oks), rng.choice([1, 1, 2, 3]))) + ([seq[-1]] if seq[-1]["t"] == "ok" else []):
        r["big"] = rng.choice([1, 4, 16]) * (1 << 20)
    if seq[-1]["t"] == "ok":
        seq[-1]["big"] = rng.choice([32, 64, 96]) * (1 << 20)   # more than the socket buffers hold when the shutdown request follows
    seq.append({"t": "shutdown"})
    return seq


def pipelined_part(ctx: Ctx, m, diffs):
    n = 6 if ctx.tier == "quick" else 60
    plan = [gen_pipelined(ctx.rng, bool(i % 2)) for i in range(n)]
    model_out = m.ask_many([dict(op="wire_serve", reqs=[{k: v for k, v in r.items() if k != "big"} for r in s]) for s in plan])
    from concurrent.futures import ThreadPoolExecutor

    with ThreadPoolExecutor(max_workers=3) as pool:
        results = list(pool.map(drive_pipelined, plan))
    for seq, mo, (replies, ended, note) in zip(plan, model_out, results):
        exp = []
        for (i, rep) in expected_of(mo, seq):
            if seq[i].get("big") and "result" in rep:
                rep = dict(rep, payload=seq[i]["big"])
            exp.append(rep)
        ctx.case({"mode": "pipelined", "seq": seq})
        ctx.count("mode.pipelined")
        ctx.count("req.big", sum(1 for r in seq if r.get("big")))
        if replies != exp:
            diffs.append({"kind": "transcript", "mode": "pipelined", "seq": seq, "impl": replies, "model": exp})
        elif not ended or note != "rc=0":
            diffs.append({"kind": "worker_exit_code", "mode": "pipelined", "seq": seq, "impl": note, "model": "rc=0"})
    return len(plan)


def body(ctx: Ctx):
    m = ctx.model
    n_thread = 250 if ctx.tier == "quick" else 3000
    n_proc = 12 if ctx.tier == "quick" else 150
    corpus = [
        [{"t": "ok", "v": 1}, {"t": "init", "mem": [["k", 5]]}, {"t": "preset", "key": "k"}, {"t": "raise", "v": 7},
         {"t": "init", "mem": [["k", 6]]}, {"t": "preset", "key": "k"}, {"t": "shutdown"}],
        [{"t": "preset", "key": "k"}, {"t": "ok", "v": 2}, {"t": "shutdown"}, {"t": "ok", "v": 3}],
        [{"t": "init", "mem": []}, {"t": "init", "mem": [["z", 1]]}, {"t": "other", "variant": 2}, {"t": "shutdown"}],
    ]
    diffs = []
    plan = [(s, "thread") for s in corpus] + [(gen_seq(ctx.rng), "thread") for _ in range(n_thread)]
    plan += [(s, "process") for s in corpus[:1]] + [(gen_seq(ctx.rng, with_counter=bool(i % 2)), "process") for i in range(n_proc)]
    model_out = m.ask_many([dict(op="wire_serve", reqs=s) for s, _ in plan])
    # the parent side of the protocol is the model's too (C17.pair, theorem parent_pairs_each_request_with_its_own_reply): which
    # request is handed which reply comes from the model; the harness's own index arithmetic (expected_of) must agree with it
    pair_out = m.ask_many([dict(op="wire_pair", reqs=s) for s, _ in plan])
    for (s, _), mo, po in zip(plan, model_out, pair_out):
        a = [[i, r] for i, r in expected_of(mo, s)]
        b = [[i, ({"result": True} if "ack" in r else (dict(r, cls=s[i]["cls"]) if s[i].get("cls") and "error" in r else r))] for i, r in po]
        if a != b:
            raise InfraError(f"C17.pair (model) and the harness disagree on which request gets which reply: {s} {a} {b}")
    ctx.count("pairing_from_model(C17.pair)", len(plan))
    lock = threading.Lock()

    def one(item):
        (seq, mode), mo = item
        exp = expected_of(mo, seq)
        transcript, ended, ended_expected, note = drive(seq, mode)
        return seq, mode, exp, transcript, ended, ended_expected, note

    from concurrent.futures import ThreadPoolExecutor

    with ThreadPoolExecutor(max_workers=8) as pool:
        results = list(pool.map(one, list(zip(plan, model_out))))
    for seq, mode, exp, transcript, ended, ended_expected, note in results:
        kinds = [r["t"] for r in seq]
        ctx.case({"mode": mode, "seq": seq}, nontrivial=len(seq) >= 2)
        ctx.count("mode." + mode)
        for k in set(kinds):
            ctx.count("req." + k, kinds.count(k))
        if "init" in kinds and any(k in ("ok", "preset", "raise") for k in kinds[: kinds.index("init")]):
            ctx.count("seq.call_before_first_init")
        if kinds.count("init") >= 2:
            ctx.count("seq.several_inits")
        if "shutdown" in kinds and kinds.index("shutdown") < len(kinds) - 1:
            ctx.count("seq.requests_after_shutdown")
        if transcript != exp:
            diffs.append({"kind": "transcript", "mode": mode, "seq": seq, "impl": transcript, "model": exp})
        elif ended_expected and not ended:
            diffs.append({"kind": "worker_not_exited_after_ack", "mode": mode, "seq": seq, "impl": note, "model": "exited"})
        elif mode == "process" and ended_expected and note != "rc=0":
            diffs.append({"kind": "worker_exit_code", "mode": mode, "seq": seq, "impl": note, "model": "rc=0"})
    npipe = pipelined_part(ctx, m, diffs)
    for need in ("seq.call_before_first_init", "seq.several_inits", "seq.requests_after_shutdown", "req.raise", "req.other"):
        if ctx.distribution.get(need, 0) < 5:
            raise InfraError(f"generator too thin: {need}={ctx.distribution.get(need, 0)}")
    ctx.oblige("correspondence: transcript of interactive_serial.main = Wire.serve (thread + subprocess)", not diffs)
    seen = set()
    for d in diffs:
        if d["kind"] in seen:
            continue
        seen.add(d["kind"])
        ctx.violation({"kind": d["kind"], "failing_input": True},
                      {"what": "reply transcript of the real worker differs from the SPEC transcript (C17.one_reply_each)", **d})
    return {
        "rule": "request sequences of length 1-13 over {init(mem), ok call, raising call, call using a preset, unknown request (4 shapes), shutdown} with shutdown possibly in the middle; each run on a real interactive_serial.main over a zmq PAIR socket (in-thread; a smaller number as real subprocesses incl. an interpreter-global counter; plus pipelined runs on subprocess workers: the whole sequence, with calls returning 1-96 MB and the shutdown behind them, is sent before any reply is read); non-trivial = length >= 2; distinct = sha1 of (mode, sequence)",
        "differences": len(diffs),
        "traces_validated_against_impl": len(results) + npipe,
        "ast_hashes": ast_hashes(ANCHORS),
        "trusted_base_extra": ["zmq PAIR socket as a reliable FIFO; silence is observed by a 25 ms poll after each non-reply-bearing request and by the position of every later reply"],
    }


def main(argv=None):
    run_check("C17", body, argv)


if __name__ == "__main__":
    main()
