"""C01 differential on real executors: rich values and dynamically defined callables.
Run as  python rich_values.py <seed> <n> <out.json>  (own process; this module is __main__, so every
function / class defined here or created at run time is shipped by value by cloudpickle).

For every generated call the future's result is compared with calling the function directly in this
process.  Results carry a unique tag so that a swapped reply cannot go unnoticed."""
from __future__ import annotations

import collections
import functools
import json
import os
import pickle
import random
import sys


def canon(x):
    """Canonical, comparable rendering of a value (numpy arrays, sets, objects with __dict__)."""
    try:
        import numpy as np
    except Exception:  # noqa
        np = None
    if np is not None and isinstance(x, np.ndarray):
        return ("ndarray", str(x.dtype), list(x.shape), [canon(y) for y in x.tolist()] if x.ndim else canon(x.item()))
    if np is not None and isinstance(x, np.generic):
        return ("npscalar", str(x.dtype), repr(x.item()))
    if isinstance(x, bool) or x is None or isinstance(x, (int, str, bytes)):
        return (type(x).__name__, repr(x))
    if isinstance(x, float):
        return ("float", x.hex() if x == x else "nan")
    if isinstance(x, complex):
        return ("complex", repr(x))
    if isinstance(x, (list, tuple)):
        # the exact class counts (namedtuple and other subclasses must arrive as what they are)
        return (type(x).__name__, [canon(y) for y in x], list(getattr(x, "_fields", ())))
    if isinstance(x, (set, frozenset)):
        return (type(x).__name__, sorted(json.dumps(canon(y), sort_keys=True, default=str) for y in x))
    if isinstance(x, dict):
        # the exact class counts (OrderedDict, defaultdict with its factory, Counter, user subclasses)
        extra = [getattr(getattr(x, "default_factory", None), "__name__", None)] if hasattr(x, "default_factory") else []
        return (type(x).__name__, [[canon(k), canon(v)] for k, v in x.items()], *extra)
    if isinstance(x, collections.deque):
        return ("deque", [canon(y) for y in x], x.maxlen)
    if hasattr(x, "__dict__"):
        return ("obj", type(x).__name__, canon(vars(x)))
    return ("repr", repr(x))


Point = collections.namedtuple("Point", ["x", "y"])


class TaggedList(list):
    pass


class Registry(dict):
    pass


def gen_subclass_value(rng, depth):
    """Instances of subclasses of tuple / dict / list (they must reach the function as what they are)."""
    k = rng.randrange(8)
    if k == 0:
        return Point(gen_value(rng, depth + 1), rng.randrange(100))
    if k == 1:
        dyn = collections.namedtuple("Dyn%d" % rng.randrange(1000), ["a", "b", "c"])     # class created at run time
        return dyn(rng.randrange(9), "s", gen_value(rng, depth + 1))
    if k == 2:
        return collections.OrderedDict((("k%d" % i), gen_value(rng, depth + 1)) for i in rng.sample(range(6), k=rng.randrange(0, 4)))
    if k == 3:
        d = collections.defaultdict(rng.choice([int, list, str]))
        for i in range(rng.randrange(0, 3)):
            d["d%d" % i] = rng.randrange(9)
        return d
    if k == 4:
        return collections.Counter(rng.choice("abcab") for _ in range(rng.randrange(0, 6)))
    if k == 5:
        return TaggedList(gen_value(rng, depth + 1) for _ in range(rng.randrange(0, 3)))
    if k == 6:
        return Registry(a=gen_value(rng, depth + 1), b=rng.randrange(9))
    return collections.deque([rng.randrange(9) for _ in range(rng.randrange(0, 4))], maxlen=rng.choice([None, 5]))


def gen_value(rng, depth=0):
    import numpy as np

    if rng.random() < (0.12 if depth < 2 else 0.0):
        return gen_subclass_value(rng, depth)
    r = rng.random()
    if depth > 2:
        r *= 0.55
    if r < 0.12:
        return rng.randrange(-10**6, 10**6)
    if r < 0.20:
        return rng.choice([0.0, -0.0, 1.5, 1e308, -2.5e-300, float("inf"), 3.141592653589793])
    if r < 0.28:
        return rng.choice(["", "a", "ünï", "line\nbreak", "/ipykernel_123/x", "x" * 200])
    if r < 0.33:
        return rng.choice([b"", b"\x00\xff", bytes(range(50))])
    if r < 0.38:
        return rng.choice([None, True, False, 2 + 3j, 10**30])
    if r < 0.48:
        return np.arange(rng.randrange(0, 7), dtype=rng.choice(["int64", "float32", "uint8"])) * rng.randrange(1, 5)
    if r < 0.53:
        return np.ones((rng.randrange(1, 4), rng.randrange(1, 4))) * rng.random()
    if r < 0.55:
        return np.float64(rng.random())
    if r < 0.67:
        return [gen_value(rng, depth + 1) for _ in range(rng.randrange(0, 4))]
    if r < 0.77:
        return tuple(gen_value(rng, depth + 1) for _ in range(rng.randrange(0, 4)))
    if r < 0.87:
        return {("k%d" % i if rng.random() < 0.7 else i): gen_value(rng, depth + 1) for i in range(rng.randrange(0, 4))}
    if r < 0.92:
        return {rng.randrange(0, 50) for _ in range(rng.randrange(0, 5))}
    return frozenset(rng.choice("abcdef") for _ in range(rng.randrange(0, 4)))


def module_level(tag, *args, **kwargs):
    return ("module_level", tag, args, kwargs)


def make_callable(rng, tag):
    """Returns (kind, callable) — all defined dynamically in the submitting process."""
    k = rng.choice(["lambda", "closure", "exec", "class_method", "type_class", "partial", "module_level", "callable_obj", "nested_closure"])
    if k == "lambda":
        return k, (lambda *a, **kw: ("lambda", tag, a, kw))
    if k == "closure":
        captured = gen_value(rng, 2)

        def clo(*a, **kw):
            return ("closure", tag, captured, a, kw)

        return k, clo
    if k == "exec":
        g = {"__name__": "__main__"}
        exec("def dyn(*a, **kw):\n    return ('exec', %r, a, kw)\n" % (tag,), g)
        return k, g["dyn"]
    if k == "class_method":
        class Local:
            def __init__(self, t):
                self.t = t

            def run(self, *a, **kw):
                return ("bound", self.t, a, kw, Local(("inner", self.t)).__dict__)

        return k, Local(tag).run
    if k == "type_class":
        T = type("Built%s" % abs(hash(tag)) , (), {"__init__": lambda self, t: setattr(self, "t", t),
                                                  "__call__": lambda self, *a, **kw: ("type", self.t, a, kw)})
        return k, T(tag)
    if k == "partial":
        return k, functools.partial(module_level, tag, "pre")
    if k == "module_level":
        return k, functools.partial(module_level, tag)
    if k == "callable_obj":
        class Ret:
            def __init__(self, t, a):
                self.t, self.a = t, a

        def f(*a, **kw):
            return Ret(tag, [a, kw])

        return k, f
    depth1 = tag

    def outer():
        x = ("outer", depth1)

        def inner(*a, **kw):
            return ("nested", x, a, kw)

        return inner

    return k, outer()


def where():
    import executorlib

    return executorlib.__file__


class ModuleLevelError(Exception):
    """defined in the submitting script (shipped by value)"""


class NotAnError(BaseException):
    """a user-defined exception that does not derive from Exception (like SystemExit, KeyboardInterrupt, GeneratorExit)"""


class WithAttr(Exception):
    def __init__(self, *args):
        super().__init__(*args)
        self.extra = ("attr", len(args))


def make_exc(rng, tag):
    """(kind, exception instance) over builtin, stdlib (other modules) and script-defined classes; 0-3 args."""
    import json as _json
    import subprocess as _sp
    import concurrent.futures as _cf
    import zipfile
    import queue as _q

    nargs = rng.choice([0, 1, 1, 2, 3])
    args = tuple([tag] + [rng.choice([1, "two", None, (3, 4), 5.5]) for _ in range(nargs - 1)]) if nargs else ()
    k = rng.choice(["builtin", "builtin", "stdlib", "stdlib", "script", "script_dynamic", "script_attr", "oserror", "keyerror", "nested_arg", "base"])
    if k == "base":
        # exceptions outside the Exception branch of the hierarchy: sys.exit() inside a submitted function, a user-defined
        # BaseException subclass, KeyboardInterrupt / GeneratorExit raised by the function itself
        c = rng.randrange(4)
        if c == 0:
            return k, SystemExit(*args[:1])
        if c == 1:
            return k, NotAnError(*args)
        if c == 2:
            return k, KeyboardInterrupt(*args)
        return k, GeneratorExit(*args)
    if k == "builtin":
        cls = rng.choice([ValueError, TypeError, RuntimeError, ZeroDivisionError, IndexError, AssertionError, NotImplementedError, ArithmeticError, LookupError])
        return k, cls(*args)
    if k == "stdlib":
        c = rng.randrange(5)
        if c == 0:
            return k, _json.JSONDecodeError("msg " + tag, "doc", 1)
        if c == 1:
            return k, _sp.CalledProcessError(3, ["cmd", tag])
        if c == 2:
            return k, zipfile.BadZipFile(*args)
        if c == 3:
            return k, _q.Empty(*args)
        return k, _cf.InvalidStateError(*args)
    if k == "script":
        return k, ModuleLevelError(*args)
    if k == "script_dynamic":
        base = rng.choice([Exception, ValueError, ModuleLevelError])
        cls = type("Dyn" + base.__name__, (base,), {})
        return k, cls(*args)
    if k == "script_attr":
        return k, WithAttr(*args)
    if k == "oserror":
        return k, rng.choice([FileNotFoundError(2, "No such file", tag), PermissionError(13, "denied"), OSError(*args[:1])])
    if k == "keyerror":
        return k, KeyError(*args)
    return k, ValueError(ValueError(tag, 2), *args)


def canon_exc(e):
    return {"class": type(e).__name__, "module": type(e).__module__, "mro": [c.__name__ for c in type(e).__mro__],
            "args": canon(e.args), "attrs": canon({k: v for k, v in vars(e).items()}) if hasattr(e, "__dict__") else None}


def raiser(exc):
    raise exc


def main_exc(seed, n, out):
    rng = random.Random("exc:%d" % seed)
    import cloudpickle
    import executorlib

    res = {"pin_parent": executorlib.__file__, "pin_workers": [], "cases": []}
    modes = [
        ("percall", dict(backend="local", block_allocation=False, max_cores=3)),
        ("percall_nodeps", dict(backend="local", block_allocation=False, disable_dependencies=True)),
        ("block1", dict(backend="local", block_allocation=True, max_workers=1)),
    ]
    per_mode = max(3, n // len(modes))
    for mname, kw in modes:
        count = per_mode if not kw.get("block_allocation") else max(2, per_mode // 3)
        for c in range(count if kw.get("block_allocation") else 1):
            exe = executorlib.Executor(**kw)
            try:
                if c == 0:
                    res["pin_workers"].append(exe.submit(where).result(timeout=60))
                batch = []
                for d in range(1 if kw.get("block_allocation") else count):
                    tag = "%s-%d-%d-%d" % (mname, seed, c, d)
                    kind, exc = make_exc(rng, tag)
                    try:
                        back = cloudpickle.loads(cloudpickle.dumps(exc))
                        if canon_exc(back) != canon_exc(exc):
                            continue   # does not survive a pickle round trip: outside the quantifier
                    except Exception:  # noqa
                        continue
                    ok_f = exe.submit(module_level, tag)          # an unrelated call submitted first
                    f = exe.submit(raiser, exc)
                    batch.append((tag, kind, exc, f, ok_f))
                import concurrent.futures as _cf

                pend = 0
                for tag, kind, exc, f, ok_f in batch:
                    try:
                        f.result(timeout=25 if pend < 2 else 1)
                        got = {"class": None}
                    except _cf.TimeoutError:
                        got = {"class": "<future still pending after 25 s>"}
                        pend += 1
                    except BaseException as e:  # noqa
                        got = canon_exc(e)
                    want = canon_exc(exc)
                    rec = {"mode": mname, "kind": "exc." + kind, "tag": tag, "ok": got == want, "shape": [want["class"], len(exc.args)]}
                    try:
                        other = ok_f.result(timeout=25 if pend < 2 else 1)
                        if canon(other) != canon(module_level(tag)):
                            rec["ok"] = False
                            rec["other"] = repr(other)[:200]
                    except _cf.TimeoutError:
                        rec["ok"] = False
                        rec["other"] = "unrelated call still pending after 25 s"
                        pend += 1
                    except BaseException as e:  # noqa
                        rec["ok"] = False
                        rec["other"] = "unrelated call failed: " + repr(e)[:200]
                    if not rec["ok"]:
                        rec["got"], rec["want"] = got, want
                    res["cases"].append(rec)
            finally:
                def _sd(exe=exe):
                    try:
                        exe.shutdown(wait=True)
                    except BaseException:  # noqa  (shutdown re-raises a call's exception; not judged here)
                        pass

                import threading as _th

                _t = _th.Thread(target=_sd, daemon=True)
                _t.start()
                _t.join(30)
    with open(out, "w") as fh:
        json.dump(res, fh, default=str)
    os._exit(0)


def main():
    seed, n, out = int(sys.argv[1]), int(sys.argv[2]), sys.argv[3]
    if len(sys.argv) > 4 and sys.argv[4] == "exc":
        return main_exc(seed, n, out)
    rng = random.Random("rich:%d" % seed)
    import executorlib

    res = {"pin_parent": executorlib.__file__, "pin_workers": [], "cases": []}
    modes = [
        ("block1", dict(backend="local", block_allocation=True, max_workers=1)),
        ("block3", dict(backend="local", block_allocation=True, max_workers=3)),
        ("block2_nodeps", dict(backend="local", block_allocation=True, max_workers=2, disable_dependencies=True)),
        ("percall", dict(backend="local", block_allocation=False, max_cores=3)),
        ("percall_nodeps", dict(backend="local", block_allocation=False, max_workers=2, disable_dependencies=True)),
    ]
    import tempfile as _tf

    # the same differential with a cache directory: every call its own value (the cache only adds a way to go wrong)
    modes.append(("block1_cache", dict(backend="local", block_allocation=True, max_workers=1, cache_directory=_tf.mkdtemp(prefix="vh_rich_"))))
    per_mode = max(4, n // len(modes))
    for mname, kw in modes:
        try:
            with executorlib.Executor(**kw) as exe:
                res["pin_workers"].append(exe.submit(where).result(timeout=60))
                batch = []
                for c in range(per_mode):
                    tag = "%s-%d-%d" % (mname, seed, c)
                    kind, fn = make_callable(rng, tag)
                    args = tuple(gen_value(rng) for _ in range(rng.randrange(0, 3)))
                    kwargs = {"kw%d" % i: gen_value(rng) for i in range(rng.randrange(0, 3))}
                    # only values that survive a pickle round trip are in the property's quantifier
                    import cloudpickle

                    try:
                        cloudpickle.loads(cloudpickle.dumps((fn, args, kwargs)))
                    except Exception:  # noqa
                        continue
                    batch.append((tag, kind, fn, args, kwargs, exe.submit(fn, *args, **kwargs)))
                # completion in arbitrary order; collect in reverse submission order
                import concurrent.futures as _cf2

                npend = 0
                for tag, kind, fn, args, kwargs, fut in reversed(batch):
                    try:
                        got = canon(fut.result(timeout=60 if npend < 2 else 1))
                    except _cf2.TimeoutError:
                        npend += 1
                        got = ("PENDING", "the future did not finish")
                    except Exception as e:  # noqa
                        got = ("EXC", type(e).__name__, repr(e)[:200])
                    try:
                        want = canon(fn(*args, **kwargs))
                    except Exception as e:  # noqa
                        want = ("EXC", type(e).__name__, repr(e)[:200])
                    ok = json.dumps(got, sort_keys=True, default=str) == json.dumps(want, sort_keys=True, default=str)
                    rec = {"mode": mname, "kind": kind, "tag": tag, "ok": ok,
                           "shape": [type(a).__name__ for a in args] + sorted(kwargs)}
                    if not ok:
                        rec["got"], rec["want"] = got, want
                    res["cases"].append(rec)
                # the same keywords in another order are another call (the order is visible to the function: PEP 468)
                kws = {"create": 1, "file": "a.tar", "level": rng.randrange(9)}
                for order in (list(kws), list(reversed(list(kws))), list(kws)):
                    kk = {k: kws[k] for k in order}
                    try:
                        got = canon(exe.submit(module_level, "kworder-" + mname, **kk).result(timeout=120 if npend == 0 else 2))
                    except Exception as e:  # noqa
                        got = ("EXC", type(e).__name__, repr(e)[:200])
                    want = canon(module_level("kworder-" + mname, **kk))
                    okk = json.dumps(got, default=str) == json.dumps(want, default=str)
                    rec = {"mode": mname, "kind": "keyword_order", "tag": "kworder-%s-%s" % (mname, "".join(o[0] for o in order)), "ok": okk, "shape": order}
                    if not okk:
                        rec["got"], rec["want"] = got, want
                    res["cases"].append(rec)
                # map(): results in input order
                xs = [rng.randrange(0, 1000) for _ in range(rng.randrange(2, 7))]
                off = rng.randrange(0, 100)
                got = list(exe.map(lambda x: (x, x * 2 + off), xs, timeout=120 if npend == 0 else 3)) if npend == 0 else ["not run: earlier futures of this executor are pending"]
                want = [(x, x * 2 + off) for x in xs]
                rec = {"mode": mname, "kind": "map", "tag": "map-%s" % mname, "ok": got == want, "shape": ["int"] * len(xs)}
                if got != want:
                    rec["got"], rec["want"] = got, want
                res["cases"].append(rec)
        except BaseException as e:  # noqa  (leaving the block re-raises what killed a worker thread)
            res["cases"].append({"mode": mname, "kind": "executor_block", "tag": "exit-" + mname, "ok": False, "shape": [],
                                 "got": ("EXC", type(e).__name__, repr(e)[:300]), "want": "the with-block ends normally"})
    # short-lived callables through ONE long-lived worker connection: each is created, submitted, awaited and dropped before the
    # next exists, so object addresses repeat (closures, bound methods, functools.partial objects)
    import functools
    import gc

    class _Acc:
        def __init__(self, k):
            self.k = k

        def add(self, x):
            return ("method", self.k, self.k + x)

    def _mk_closure(k):
        def scaled(x):
            return ("closure", k, k * x)

        return scaled

    def _pw(a, b):
        return ("partial", a, a - b)

    for mname, kw in (("block1_sweep", dict(backend="local", block_allocation=True, max_workers=1)),
                      ("block1_sweep_nodeps", dict(backend="local", block_allocation=True, max_workers=1, disable_dependencies=True))):
        with executorlib.Executor(**kw) as exe:
            for k in range(18):
                kind = ("closure", "method", "partial")[k % 3]
                fn = _mk_closure(k) if kind == "closure" else (_Acc(k).add if kind == "method" else functools.partial(_pw, k))
                x = rng.randrange(1, 50)
                want = canon(fn(x))
                try:
                    got = canon(exe.submit(fn, x).result(timeout=60))
                except Exception as e:  # noqa
                    got = ("EXC", type(e).__name__, repr(e)[:200])
                del fn
                gc.collect()
                ok = json.dumps(got, sort_keys=True, default=str) == json.dumps(want, sort_keys=True, default=str)
                rec = {"mode": mname, "kind": "sweep." + kind, "tag": "sweep-%s-%d" % (mname, k), "ok": ok, "shape": ["int"]}
                if not ok:
                    rec["got"], rec["want"] = got, want
                res["cases"].append(rec)
    # presets of an init_function: the caller's own value always wins (explicit > preset > default)
    for mname, kw in (("block1_init", dict(backend="local", block_allocation=True, max_workers=1, init_function=_presets)),
                      ("block2_init_nodeps", dict(backend="local", block_allocation=True, max_workers=2, disable_dependencies=True,
                                                  init_function=_presets))):
        with executorlib.Executor(**kw) as exe:
            batch = []
            for c in range(6):
                a = rng.randrange(0, 50)
                kwargs = {k: rng.randrange(1000, 2000) for k in ("p0", "p1", "p2") if rng.random() < 0.5}
                pos = [rng.randrange(500, 600)] if (rng.random() < 0.3 and "p0" not in kwargs) else []
                batch.append((a, pos, kwargs, exe.submit(_takes_presets, a, *pos, **kwargs)))
            for a, pos, kwargs, fut in batch:
                eff = dict({"p0": 111, "p1": 222}, **kwargs)       # p2 has no preset: its default applies
                if pos:
                    eff["p0"] = pos[0]
                want = canon(_takes_presets(a, **eff))
                try:
                    got = canon(fut.result(timeout=60))
                except Exception as e:  # noqa
                    got = ("EXC", type(e).__name__, repr(e)[:200])
                ok = json.dumps(got, sort_keys=True, default=str) == json.dumps(want, sort_keys=True, default=str)
                rec = {"mode": mname, "kind": "preset_vs_explicit", "tag": "init-%s-%d" % (mname, a), "ok": ok, "shape": sorted(kwargs) + ["pos"] * len(pos)}
                if not ok:
                    rec["got"], rec["want"], rec["call"] = got, want, {"a": a, "pos": pos, "kwargs": kwargs}
                res["cases"].append(rec)
    with open(out, "w") as fh:
        json.dump(res, fh, default=str)
    os._exit(0)


def _presets():
    return {"p0": 111, "p1": 222}


def _takes_presets(a, p0=1, p1=2, p2=3):
    return (a, p0, p1, p2)


if __name__ == "__main__":
    main()
