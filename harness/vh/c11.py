"""C11 — process model.  Lean: Props/C11.lean (fresh_process, persistent_sequential,
single_worker_fifo) over Sys; tie: engine B with bodies reporting (pid, interpreter-local counter)."""
from __future__ import annotations

from .common import Ctx, run_check
from . import sysprop

PROFILE = {"fail": 0.0, "cancel": True, "cancel_p": 0.08, "deps": True, "multi_shutdown": False, "mid_shutdown": False,
           "gate_p": 0.3, "block_res_p": 0.0, "resolver_p": 0.5, "resources": False, "ncalls": [2, 3, 4, 5, 6, 7, 8],
           "block_workers": [1, 1, 1, 2, 3]}

CORPUS = [
    # one worker behind the resolver: calls whose futures are done at submission keep their place in the order
    {"executor": {"backend": "local", "block_allocation": True, "max_workers": 1, "disable_dependencies": False},
     "calls": [{"base": 1, "args": [], "kwargs": {}}, {"base": 10, "gate": 0, "args": [], "kwargs": {}},
               {"base": 100, "args": [], "kwargs": {}}, {"base": 1000, "args": [], "kwargs": {}}],
     "script": [{"c": "submit"}, {"c": "submit"}, {"c": "submit"}, {"c": "submit"}, {"c": "sleep", "ms": 20}, {"c": "release", "g": 0},
                {"c": "shutdown", "wait": True, "cancel": False}],
     "gates": [0], "perturb": {}, "seed": 1, "timeout": 20, "settle": 6},
    {"executor": {"backend": "local", "block_allocation": False, "max_cores": 2, "disable_dependencies": False},
     "calls": [{"base": 1, "args": [], "kwargs": {}}, {"base": 10, "args": [{"f": 0}], "kwargs": {}}, {"base": 100, "args": [], "kwargs": {}}],
     "script": [{"c": "submit"}, {"c": "submit"}, {"c": "submit"}, {"c": "shutdown", "wait": True, "cancel": False}],
     "gates": [], "perturb": {}, "seed": 2, "timeout": 20, "settle": 6},
]

CORPUS.append(
    # a call taking an already finished future keeps its place in front of the next call (one worker behind the resolver)
    {"executor": {"backend": "local", "block_allocation": True, "max_workers": 1, "disable_dependencies": False},
     "calls": [{"base": 1, "args": [], "kwargs": {}}, {"base": 10, "gate": 0, "args": [], "kwargs": {}},
               {"base": 100, "args": [{"f": 0}], "kwargs": {}}, {"base": 1000, "args": [], "kwargs": {}}],
     "script": [{"c": "submit"}, {"c": "await", "i": 0}, {"c": "submit"}, {"c": "submit"}, {"c": "submit"}, {"c": "sleep", "ms": 30},
                {"c": "release", "g": 0}, {"c": "shutdown", "wait": True, "cancel": False}],
     "gates": [0], "perturb": {}, "seed": 3, "timeout": 20, "settle": 6})

REQUIRED = ["wBoot", "wGet", "wSend", "wFinish", "wAck", "dLaunch", "rForward"]


def kill_scenarios(ctx: Ctx):
    # ---- a worker process killed from outside between two calls: the worker is ONE persistent process, later calls of that
    # worker must not silently run in another interpreter (they stay pending on the unchanged code: not judged here)
    import json
    import os
    import subprocess
    import sys

    from .common import VERIF, InfraError

    from .common import finish_json_child, start_json_child

    bad = []
    repo = os.environ.get("VERIF_REPO", "/repo")
    procs = [((dd, nw), start_json_child(["vh.kill_runner", str(dd), str(nw)])) for dd, nw in ((1, 1), (0, 1), (1, 2))]
    for (dd, nw), h in procs:
        o = finish_json_child(h, 200)
        if o is None:
            raise InfraError("kill runner produced no output (disable_dependencies=%s workers=%s)" % (dd, nw))
        if not os.path.realpath(o["pin"]).startswith(os.path.realpath(repo) + os.sep):
            raise InfraError("kill runner imported executorlib from " + o["pin"])
        ctx.case({"worker_killed_between_calls": True, "disable_dependencies": bool(dd), "workers": nw})
        ctx.count("kill_scenarios")
        old_pids = set(o["killed"])
        moved = [r for r in o["after"] if isinstance(r, list) and r[0] not in old_pids]
        if moved:
            bad.append({"disable_dependencies": bool(dd), "workers": nw, "outcome": o})
    ctx.oblige("block allocation: after a worker process was killed from outside no later call of that executor runs in another process "
               "(a worker is one persistent process)", not bad)
    if bad:
        ctx.violation({"kind": "worker_respawned", "failing_input": True},
                      {"what": "with block allocation, calls submitted after a worker process was killed ran in a NEW process: the worker is "
                               "not one persistent process and the interpreter state of its earlier calls vanished silently", "cases": bad})


def parked_order_scenarios(ctx: Ctx):
    # ---- calls parked in the resolver's wait list on the SAME unfinished future become ready in one pass: the single worker
    # must execute them in the order they were submitted (C11: "a single worker executes calls in the order they were submitted")
    import os
    import tempfile

    from .common import InfraError, finish_json_child, start_json_child

    repo = os.environ.get("VERIF_REPO", "/repo")
    d = tempfile.mkdtemp(prefix="vh_po_")
    bad = []
    procs = [(n, start_json_child(["vh.parked_order_runner", str(n), os.path.join(d, "gate%d" % n)])) for n in (2, 4, 7)]
    for n, h in procs:
        o = finish_json_child(h, 200)
        if o is None:
            raise InfraError("parked-order runner produced no output (n=%d)" % n)
        if not os.path.realpath(o["pin"]).startswith(os.path.realpath(repo) + os.sep):
            raise InfraError("parked-order runner imported executorlib from " + o["pin"])
        ctx.case({"parked_on_one_future": n, "workers": 1})
        ctx.count("parked_order_scenarios")
        rs = o["results"]
        if not all(isinstance(r, list) for r in rs):
            bad.append({"n": n, "why": "a dependent did not finish", "outcome": o})
            continue
        executed = [r[2] for r in sorted(rs, key=lambda r: r[1])]
        if executed != list(range(n)) or len({r[0] for r in rs}) != 1:
            bad.append({"n": n, "why": "execution order differs from submission order", "executed_order": executed, "outcome": o})
    import shutil

    shutil.rmtree(d, ignore_errors=True)
    ctx.oblige("one worker behind the resolver: calls parked on the same future run in submission order once it finishes", not bad)
    if bad:
        ctx.violation({"kind": "parked_calls_out_of_order", "failing_input": True},
                      {"what": "one block-allocation worker behind the dependency resolver: calls parked on the same unfinished future "
                               "were executed in an order other than the order of submission", "parked_cases": bad})


def scan_pass_differential(ctx: Ctx, patterns=None):
    """The real `_submit_waiting_task` on wait lists whose tasks hold finished / unfinished futures, against `C11Scan.scanPass`
    (theorems forwarded_in_submission_order, pass_partitions): same positions forwarded, in the same queue order, same rest."""
    import queue
    from concurrent.futures import Future

    from executorlib.interactive.shared import _submit_waiting_task

    n = 150 if ctx.tier == "quick" else 1500
    if patterns is None:
        patterns = [[1, 1], [1, 1, 1, 1], [0, 1, 1, 0, 1], [0], [1], []]
        patterns += [[int(ctx.rng.random() < 0.6) for _ in range(ctx.rng.randint(0, 9))] for _ in range(n)]
    model = ctx.model.ask_many([dict(op="scan_pass", ready=pt) for pt in patterns])
    bad = []
    for pt, mo in zip(patterns, model):
        wl = []
        for k, r in enumerate(pt):
            dep = Future()
            if r:
                dep.set_result(k)
            # half of the ready ones also carry a second finished future; the argument holds the future itself
            extra = Future()
            extra.set_result(-1)
            wl.append({"fn": len, "args": (dep,), "kwargs": {}, "future": Future(), "future_lst": [dep] + ([extra] if k % 2 else []),
                       "resource_dict": {}, "_pos": k})
        q = queue.Queue()
        try:
            rest = _submit_waiting_task(wait_lst=list(wl), executor_queue=q)
            fwd = []
            while not q.empty():
                fwd.append(q.get_nowait()["_pos"])
            impl = {"fwd": fwd, "rest": [t["_pos"] for t in rest]}
        except BaseException as e:  # noqa
            impl = {"raised": repr(e)}
        ctx.count("scan_pass.ready_%d" % min(sum(pt), 4))
        if impl != mo:
            bad.append({"ready": pt, "impl": impl, "model": mo})
    ctx.count("scan_pass_differential", len(patterns))
    ctx.oblige("correspondence: _submit_waiting_task = C11Scan.scanPass (forwarded positions in queue order, remaining positions)", not bad)
    if bad:
        bad.sort(key=lambda d: len(d["ready"]))
        first = bad[0]
        out_of_order = isinstance(first["impl"].get("fwd"), list) and first["impl"]["fwd"] != sorted(first["impl"]["fwd"])
        ctx.violation({"kind": "scan_pass_out_of_order" if out_of_order else "scan_pass", "failing_input": True},
                      {"what": "one pass of the resolver over its wait list differs from C11Scan.scanPass"
                               + (": calls ready in the same pass are put on the worker queue in an order other than the order of "
                                  "submission, a single worker runs them in that order" if out_of_order else ""),
                       "scan_cases": bad[:5]})


def body(ctx: Ctx):
    if ctx.replay_file:
        import json as _json

        _rp = _json.load(open(ctx.replay_file))
        if "scan_cases" in _rp:
            scan_pass_differential(ctx, [c["ready"] for c in _rp["scan_cases"]])
            return {"rule": "replay of the wait-list pass differential"}
        if "parked_cases" in _rp:
            parked_order_scenarios(ctx)
            return {"rule": "replay of the parked-on-one-future scenarios"}
        if "cases" in _rp:
            kill_scenarios(ctx)
            return {"rule": "replay of the worker-killed-between-calls scenarios"}
        return sysprop.replay(ctx, "C11", ctx.replay_file)
    n = 90 if ctx.tier == "quick" else 900
    res = sysprop.campaign(ctx, "C11", PROFILE, n, CORPUS, REQUIRED)
    kill_scenarios(ctx)
    parked_order_scenarios(ctx)
    scan_pass_differential(ctx)
    res["rule"] = ("engine B: batches of 2-8 calls whose bodies read and increment an interpreter-global counter and report (pid, counter); "
                   "block executors with 1-3 workers and per-call executors, resolver on/off; oracles: per-call mode - every pid used once "
                   "and every counter 0; block mode - per pid the counters are 0,1,2,... and [enter, exit] intervals are disjoint; one "
                   "worker - calls without futures execute in submission order; non-trivial = >=2 calls; plus three fault scenarios in which the "
                   "worker processes are killed between two calls, and three scenarios with 2 / 4 / 7 calls parked on one gated future "
                   "behind one worker (executed in submission order); differential of the real _submit_waiting_task against "
                   "C11Scan.scanPass on wait lists of 0-9 tasks with finished / unfinished futures")
    res["trusted_base_extra"] = sysprop.TRUST
    return res


def main(argv=None):
    run_check("C11", body, argv)


if __name__ == "__main__":
    main()
