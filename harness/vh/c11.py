"""C11 — process model.  Lean: Props/C11.lean (fresh_process, persistent_sequential,
single_worker_fifo) over Sys; tie: engine B with bodies reporting (pid, interpreter-local counter)."""
from __future__ import annotations

from .common import Ctx, run_check
from . import sysprop

PROFILE = {"fail": 0.0, "cancel": True, "cancel_p": 0.08, "deps": True, "multi_shutdown": False, "mid_shutdown": False,
           "gate_p": 0.3, "block_res_p": 0.0, "resolver_p": 0.5, "resources": False, "ncalls": [2, 3, 4, 5, 6, 7, 8],
           "block_workers": [1, 1, 1, 2, 3]}

CORPUS = [
    # one worker behind the resolver: calls whose futures are done at submission keep their place in the order
    {"executor": {"backend": "local", "block_allocation": True, "max_workers": 1, "disable_dependencies": False},
     "calls": [{"base": 1, "args": [], "kwargs": {}}, {"base": 10, "gate": 0, "args": [], "kwargs": {}},
               {"base": 100, "args": [], "kwargs": {}}, {"base": 1000, "args": [], "kwargs": {}}],
     "script": [{"c": "submit"}, {"c": "submit"}, {"c": "submit"}, {"c": "submit"}, {"c": "sleep", "ms": 20}, {"c": "release", "g": 0},
                {"c": "shutdown", "wait": True, "cancel": False}],
     "gates": [0], "perturb": {}, "seed": 1, "timeout": 20, "settle": 6},
    {"executor": {"backend": "local", "block_allocation": False, "max_cores": 2, "disable_dependencies": False},
     "calls": [{"base": 1, "args": [], "kwargs": {}}, {"base": 10, "args": [{"f": 0}], "kwargs": {}}, {"base": 100, "args": [], "kwargs": {}}],
     "script": [{"c": "submit"}, {"c": "submit"}, {"c": "submit"}, {"c": "shutdown", "wait": True, "cancel": False}],
     "gates": [], "perturb": {}, "seed": 2, "timeout": 20, "settle": 6},
]

CORPUS.append(
    # a call taking an already finished future keeps its place in front of the next call (one worker behind the resolver)
    {"executor": {"backend": "local", "block_allocation": True, "max_workers": 1, "disable_dependencies": False},
     "calls": [{"base": 1, "args": [], "kwargs": {}}, {"base": 10, "gate": 0, "args": [], "kwargs": {}},
               {"base": 100, "args": [{"f": 0}], "kwargs": {}}, {"base": 1000, "args": [], "kwargs": {}}],
     "script": [{"c": "submit"}, {"c": "await", "i": 0}, {"c": "submit"}, {"c": "submit"}, {"c": "submit"}, {"c": "sleep", "ms": 30},
                {"c": "release", "g": 0}, {"c": "shutdown", "wait": True, "cancel": False}],
     "gates": [0], "perturb": {}, "seed": 3, "timeout": 20, "settle": 6})

REQUIRED = ["wBoot", "wGet", "wSend", "wFinish", "wAck", "dLaunch", "rForward"]


def body(ctx: Ctx):
    if ctx.replay_file:
        return sysprop.replay(ctx, "C11", ctx.replay_file)
    n = 90 if ctx.tier == "quick" else 900
    res = sysprop.campaign(ctx, "C11", PROFILE, n, CORPUS, REQUIRED)
    res["rule"] = ("engine B: batches of 2-8 calls whose bodies read and increment an interpreter-global counter and report (pid, counter); "
                   "block executors with 1-3 workers and per-call executors, resolver on/off; oracles: per-call mode - every pid used once "
                   "and every counter 0; block mode - per pid the counters are 0,1,2,... and [enter, exit] intervals are disjoint; one "
                   "worker - calls without futures execute in submission order; non-trivial = >=2 calls")
    res["trusted_base_extra"] = sysprop.TRUST
    return res


def main(argv=None):
    run_check("C11", body, argv)


if __name__ == "__main__":
    main()
