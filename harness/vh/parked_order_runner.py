"""python -m vh.parked_order_runner <n dependents> <gatefile>  -> one JSON line.
One block-allocation worker behind the dependency resolver.  A gated call is submitted, then n calls that each take its future;
all n are parked in the resolver's wait list (the gate opens 0.5 s after the last submission) and become ready in the same pass.
Reports the order in which the single worker executed them (interpreter-global counter read inside the calls)."""
import json
import os
import sys
import time


def seed_call(gate):
    import os as _os
    import time as _t

    t0 = _t.monotonic()
    while not _os.path.exists(gate) and _t.monotonic() - t0 < 60:
        _t.sleep(0.01)
    return 0


def rec(dep, tag):
    import builtins
    import os as _os

    builtins._vh_po = getattr(builtins, "_vh_po", 0) + 1
    return _os.getpid(), builtins._vh_po, tag


def main():
    n, gate = int(sys.argv[1]), sys.argv[2]
    import executorlib

    out = {"pin": executorlib.__file__, "n": n, "results": []}
    exe = executorlib.Executor(backend="local", block_allocation=True, max_workers=1, disable_dependencies=False)
    s = exe.submit(seed_call, gate)
    futs = [exe.submit(rec, s, i) for i in range(n)]
    time.sleep(0.5)
    open(gate, "w").close()
    for f in futs:
        try:
            out["results"].append(list(f.result(timeout=60)))
        except BaseException as e:  # noqa
            out["results"].append("exc:" + type(e).__name__)
    print(json.dumps(out), flush=True)
    try:
        exe.shutdown(wait=False)
    except BaseException:  # noqa
        pass
    os._exit(0)


if __name__ == "__main__":
    main()
