"""Event trace (vh.runner) -> labels of the Lean transition system `Sys`.

Table driven per thread role; an event with no row is reported as a correspondence difference
(`MapError`), never ignored silently.  Thread-private events (socket traffic, process polling,
reads of already decided futures) are folded into the label that closes the group.
"""
from __future__ import annotations


class MapError(Exception):
    def __init__(self, msg, event=None, labels=None):
        super().__init__(msg)
        self.event = event
        self.labels = labels or []


IGNORED = {"q_new", "f_new", "thread_new", "thread_start", "proc_poll", "proc_shutdown", "iface_shutdown_begin"}


def model_case(scen, obs=None):
    """The `cfg`/`script` part of a sys_replay request for this scenario."""
    ex = scen["executor"]
    calls = []
    rej = rejected_of(scen, obs=obs)
    for c in scen["calls"]:
        rd = c.get("resource_dict")
        calls.append({
            "deps": deps_of(c, rej),
            "cores": (rd or {}).get("cores"),
            "threads": (rd or {}).get("threads_per_core"),
            "hasRes": bool(rd),
            "base": c.get("base", 0) + plain_sum(c),
            "fail": ("ValueError" if c.get("fail") else None),
        })
    block = ex.get("max_workers") if ex.get("block_allocation") else None
    cfg = {
        "resolver": not ex.get("disable_dependencies", False),
        "block": block,
        "maxCores": None if ex.get("block_allocation") else ex.get("max_cores"),
        "maxWorkers": None if ex.get("block_allocation") else ex.get("max_workers"),
        "execCores": (ex.get("resource_dict") or {}).get("cores", 1),
        # the local back end does not hand threads_per_core on to the workers (and does not account it)
        "execThreads": 1 if ex.get("backend", "local") == "local" else (ex.get("resource_dict") or {}).get("threads_per_core", 1),
        "calls": calls,
    }
    recs = (obs or {}).get("cmds", [])
    script = []
    for k, c in enumerate(scen["script"]):
        if c["c"] not in ("submit", "cancel", "await", "shutdown"):
            continue
        if k < len(recs) and recs[k].get("skipped"):
            continue  # cancel/await aimed at a submission that was rejected: nothing happened
        if k < len(recs) and recs[k].get("gave_up"):
            continue  # an await the user script abandoned after a time limit: no synchronisation took place
        script.append(c)
    return {"cfg": cfg, "script": script}


def _walk(d, out):
    if "f" in d:
        out.append(d["f"])
    elif "l" in d:
        for x in d["l"]:
            _walk(x, out)
    # futures inside tuples / dicts are not looked at by the resolver (only lists)


def deps_of(call, rejected=()):
    """Futures among the arguments, traversal order.  A reference to a submission that was rejected
    (submit raised) is not a future: the scenario runner passes None for it."""
    out = []
    for d in call.get("args", []):
        _walk(d, out)
    for d in call.get("kwargs", {}).values():
        _walk(d, out)
    return [j for j in out if j not in rejected]


def rejected_of(scen, obs=None, events=None):
    """Submission indices whose submit() raised."""
    rej = set()
    if events is not None:
        rej |= {ev["i"] for ev in events if ev.get("op") == "submit_raised"}
    if obs is not None:
        k = 0
        for c, rec in zip(scen["script"], obs.get("cmds", [])):
            if c["c"] == "submit":
                if rec.get("ok") is False:
                    rej.add(k)
                k += 1
    return rej


def plain_sum(call):
    def s(d):
        if "v" in d:
            return d["v"]
        if "a" in d:
            return sum(d["a"])
        if "l" in d:
            return sum(s(x) for x in d["l"])
        if "t" in d:
            return sum(s(x) for x in d["t"])
        return 0

    return sum(s(d) for d in call.get("args", [])) + sum(s(d) for d in call.get("kwargs", {}).values())


def map_events(scen, events):
    """Returns (labels, where) with where[k] = index of the event that produced label k."""
    ex = scen["executor"]
    has_res = not ex.get("disable_dependencies", False)
    block = bool(ex.get("block_allocation"))
    calls = scen["calls"]
    labels, where = [], []
    qrole = {}
    rej = rejected_of(scen, events=events)

    def emit(ev, l, **kw):
        d = {"l": l}
        d.update(kw)
        labels.append(d)
        where.append(ev["n"])

    # queue roles from creation order / creator
    for ev in events:
        if ev["op"] == "q_new":
            by = ev["by"]
            if by == "ExecutorWithDependencies":
                qrole[ev["q"]] = "outer"
            elif by in ("InteractiveExecutor", "InteractiveStepExecutor"):
                qrole[ev["q"]] = "inner"
            elif by == "execute_separate_tasks":
                qrole[ev["q"]] = "priv"
            else:
                qrole[ev["q"]] = "?" + by
    front = "outer" if has_res else "inner"

    main = {"mode": "idle", "front_open": True}
    res = {"mode": "poll", "cur": None, "reads": 0, "park": False, "wait": [], "scan_reads": {}, "in_sd": False, "failing": None}
    disp = {"mode": "idle", "active": [], "cur": None}
    wk = {}

    def wstate(k):
        return wk.setdefault(k, {"mode": "boot", "cur": None})

    for ev in events:
        op, th = ev["op"], ev["th"]
        if op in IGNORED:
            continue
        # ---------------------------------------------------------------- user thread
        if th == "main":
            if op == "put" and ev["kind"] == "task" and main["mode"] == "idle":
                emit(ev, "mSubmit")
            elif op == "submit_raised":
                emit(ev, "mSubmitRaise")
            elif op == "cancel" and main["mode"] == "idle":
                emit(ev, "mCancel", i=ev["i"])
            elif op == "await_done":
                emit(ev, "mAwait", i=ev["i"])
            elif op == "sd_begin":
                emit(ev, "mSdBegin")
                main["mode"] = "sd" if main["front_open"] else "sd_closed"
                main["did"] = False
            elif main["mode"] == "sd" and op == "get" and ev.get("nowait") and ev["kind"] == "task":
                emit(ev, "sdDrainGet")
            elif main["mode"] == "sd" and op == "get" and ev.get("nowait") and ev["kind"] == "stop":
                emit(ev, "sdDrainSkip")
            elif main["mode"] == "sd" and op == "cancel":
                emit(ev, "sdDrainCancel")
            elif main["mode"] == "sd" and op == "task_done":
                emit(ev, "sdDrainDone")
            elif main["mode"] == "sd" and op == "get_empty":
                emit(ev, "sdDrainEmpty")
            elif main["mode"] == "sd" and op == "put" and ev["kind"] == "stop":
                emit(ev, "sdPutStop")
            elif main["mode"] == "sd" and op == "thread_join":
                emit(ev, "sdJoinThreadRaise" if ev["exc"] else "sdJoinThread")
                if ev["exc"]:
                    main["mode"] = "sd_raised"
            elif main["mode"] == "sd" and op == "q_join":
                emit(ev, "sdJoinQueue")
            elif op == "sd_end":
                if main["mode"] == "sd":
                    emit(ev, "sdFinish")
                    main["front_open"] = False
                main["mode"] = "idle"
            elif op in ("result", "done", "cancelled", "running"):
                pass  # user-side reads by the scenario script are not model steps
            elif op == "thread_spawn" and main["mode"] == "idle":
                pass  # executor construction starts its threads
            else:
                raise MapError(f"unmapped user-thread event {op}", ev, labels)
        # ---------------------------------------------------------------- resolver
        elif th == "resolver":
            if op == "get" and qrole.get(ev["q"]) == "outer":
                emit(ev, "rGet")
                if ev["kind"] == "task":
                    res["cur"] = ev["i"]
                    res["reads"] = 0
                    res["park"] = False
                    nd = len(deps_of(calls[ev["i"]], rej)) if ev["i"] is not None else 0
                    res["need"] = nd
                    res["mode"] = "inspect"
                    if nd == 0:
                        emit(ev, "rDecideReady")
                        res["mode"] = "ready"
                else:
                    res["mode"] = "stopping"
            elif op == "get_empty":
                pass
            elif op == "done" and res["mode"] == "inspect":
                res["reads"] += 1
                if not ev["r"] and not res["park"]:
                    res["park"] = True
                    emit(ev, "rDecidePark")
                    res["wait"].append(res["cur"])
                if res["reads"] == res["need"]:
                    if res["park"]:
                        res["mode"] = "needAck"
                    else:
                        emit(ev, "rDecideReady")
                        res["mode"] = "ready"
            elif op == "done":
                pass  # wait-list scan reads: only the decision (forward) is a model step
            elif op == "result":
                pass
            elif op == "put" and qrole.get(ev["q"]) == "inner" and ev["kind"] == "task":
                if res["mode"] == "ready" and ev["i"] == res["cur"]:
                    emit(ev, "rForward")
                    res["mode"] = "needAck"
                elif ev["i"] in res["wait"]:
                    k = res["wait"].index(ev["i"])
                    emit(ev, "rScanFwd", k=k)
                    res["wait"].pop(k)
                else:
                    raise MapError("resolver forwarded a task it neither holds nor parked", ev, labels)
            elif op == "srn":
                # failed / cancelled input: the task's own future is failed by the resolver
                if res["mode"] == "ready" and ev["i"] == res["cur"]:
                    emit(ev, "rFailDep")
                    res["failing"] = ("cur", ev["i"], ev["r"])
                    res["mode"] = "needAck" if not ev["r"] else "failset_cur"
                elif ev["i"] in res["wait"]:
                    k = res["wait"].index(ev["i"])
                    emit(ev, "rScanFail", k=k)
                    res["wait"].pop(k)
                    res["failing"] = ("scan", ev["i"], ev["r"])
                else:
                    raise MapError("resolver srn on unknown task", ev, labels)
            elif op == "set_exception":
                emit(ev, "rFailSet")
                if res["mode"] == "failset_cur":
                    res["mode"] = "needAck"
                res["failing"] = None
            elif op == "task_done" and qrole.get(ev["q"]) == "outer":
                if res["mode"] == "needAck":
                    emit(ev, "rAck")
                    res["mode"] = "poll"
                elif res["mode"] in ("stopping", "in_sd"):
                    if res["mode"] == "in_sd":
                        emit(ev, "sdFinish", r=True)
                    else:
                        emit(ev, "rBeginSd")   # inner handle already closed: nothing to shut down
                    emit(ev, "rStopAck")
                    res["mode"] = "stopJoin"
                else:
                    raise MapError("resolver task_done in unexpected state " + res["mode"], ev, labels)
            elif op == "put" and ev["kind"] == "stop" and qrole.get(ev["q"]) == "inner":
                if res["mode"] == "stopping":
                    emit(ev, "rBeginSd")
                    res["mode"] = "in_sd"
                emit(ev, "sdPutStop", r=True)
            elif op == "thread_join" and res["mode"] in ("in_sd", "stopping"):
                if res["mode"] == "stopping":
                    emit(ev, "rBeginSd")
                    res["mode"] = "in_sd"
                emit(ev, "sdJoinThreadRaise" if ev["exc"] else "sdJoinThread", r=True)
            elif op == "q_join" and qrole.get(ev["q"]) == "inner":
                emit(ev, "sdJoinQueue", r=True)
            elif op == "q_join" and qrole.get(ev["q"]) == "outer":
                emit(ev, "rJoinExit")
                res["mode"] = "exited"
            elif op == "thread_end":
                if res["mode"] != "exited" and not ev["exc"]:
                    raise MapError("resolver thread ended in state " + res["mode"], ev, labels)
            else:
                raise MapError(f"unmapped resolver event {op}", ev, labels)
        # ---------------------------------------------------------------- dispatcher
        elif th == "disp":
            if op == "get" and qrole.get(ev["q"]) == "inner":
                emit(ev, "dGet")
                disp["cur"] = ev.get("i")
                disp["mode"] = "wait" if ev["kind"] == "task" else "stopping"
            elif op == "put" and qrole.get(ev["q"]) == "priv":
                pass
            elif op == "done":
                if ev["r"] and disp["mode"] == "wait" and ev["i"] in disp["active"]:
                    k = disp["active"].index(ev["i"])
                    emit(ev, "dPrune", k=k)
                    disp["active"].pop(k)
                # False reads are stutter steps of the busy-wait loop
            elif op == "thread_spawn":
                emit(ev, "dLaunch")
                disp["active"].append(disp["cur"])
                disp["mode"] = "needAck"
            elif op == "task_done" and qrole.get(ev["q"]) == "inner":
                if disp["mode"] == "needAck":
                    emit(ev, "dAck")
                    disp["mode"] = "idle"
                elif disp["mode"] == "stopping":
                    emit(ev, "dStopAck")
                    disp["mode"] = "stopJoin"
                else:
                    raise MapError("dispatcher task_done in state " + disp["mode"], ev, labels)
            elif op == "thread_join" and disp["mode"] == "stopping":
                emit(ev, "dJoinThreadRaise" if ev["exc"] else "dJoinThread")
            elif op == "q_join" and qrole.get(ev["q"]) == "inner":
                emit(ev, "dJoinExit")
                disp["mode"] = "exited"
            elif op == "thread_end":
                pass
            else:
                raise MapError(f"unmapped dispatcher event {op}", ev, labels)
        # ---------------------------------------------------------------- workers
        elif th.startswith("worker:"):
            k = int(th.split(":")[1])
            w = wstate(k)
            if op == "proc_boot":
                emit(ev, "wBoot", k=k)
                w["mode"] = "idle"
            elif op == "get":
                emit(ev, "wGet", k=k)
                w["cur"] = ev.get("i")
                w["mode"] = "gotTask" if ev["kind"] == "task" else "gotStop"
            elif op == "srn":
                emit(ev, "wSrn", k=k)
                w["mode"] = "toSend" if ev["r"] else "toAck"
            elif op == "send" and ev["kind"] == "task":
                emit(ev, "wSend", k=k)
                w["mode"] = "sent"
            elif op == "send" and ev["kind"] in ("shutdown", "init"):
                pass
            elif op == "recv":
                if w["mode"] == "sent" and not ev["ok"]:
                    w["mode"] = "failing"
            elif op == "set_result":
                emit(ev, "wFinish", k=k)
                w["mode"] = "toAck"
            elif op == "iface_shutdown_end":
                if w["mode"] == "failing":
                    emit(ev, "wFailA", k=k)
                    w["mode"] = "failB"
                elif w["mode"] == "gotStop":
                    emit(ev, "wProcStop", k=k)
                    w["mode"] = "stopAck"
                elif w["mode"] in ("exited", "dead"):
                    pass  # SocketInterface.__del__
                else:
                    raise MapError("interface.shutdown in worker state " + w["mode"], ev, labels)
            elif op == "task_done":
                if w["mode"] == "toAck":
                    emit(ev, "wAck", k=k)
                    w["mode"] = "idle"
                elif w["mode"] == "failB":
                    emit(ev, "wFailB", k=k)
                    w["mode"] = "failC"
                elif w["mode"] == "stopAck":
                    emit(ev, "wStopAck", k=k)
                    w["mode"] = "stopJoin"
                else:
                    raise MapError("worker task_done in state " + w["mode"], ev, labels)
            elif op == "set_exception":
                emit(ev, "wFailC", k=k)
                w["mode"] = "dead"
            elif op == "q_join":
                emit(ev, "wJoinExit", k=k)
                w["mode"] = "exited"
            elif op == "thread_end":
                if w["mode"] not in ("exited", "dead"):
                    w["mode"] = "crashed:" + str(ev.get("exc"))
                    raise MapError(f"worker {k} thread ended unexpectedly: {ev.get('exc')} {ev.get('msg')}", ev, labels)
            else:
                raise MapError(f"unmapped worker event {op}", ev, labels)
        else:
            raise MapError(f"event from unknown thread {th}: {op}", ev, labels)
    return labels, where
