"""Shared campaign for the properties decided on the `Sys` transition system (engine B).

A check = Lean audit of Props/<id>.lean (done by common.run_check) + this campaign:
  1. corpus scenarios first, then generated scenarios (profile per property), each executed on the
     real executor from /repo in its own process group (vh.runner);
  2. trace validation: the linearised event trace is mapped to `Sys` labels and replayed through
     the Lean `step` function by `modeld` (a rejected label = correspondence difference);
  3. the property's oracles are evaluated on what was observed (a failure = failing input);
  4. differences are followed by a search for a failing input (same scenario under other schedule
     seeds, then neighbours); none found -> still a violation, marked no-failing-input-found;
  5. failures that fall into a region listed in known_findings.json and were predicted by the
     faithful model are reported as KNOWN-FINDING, everything else is a VIOLATION.
"""
from __future__ import annotations

import copy
import json
import os

from .common import VERIF, Ctx, InfraError, ast_hashes
from . import engine_b as eb

ANCHORS = {
    "executorlib/interactive/shared.py": [
        "ExecutorBroker", "InteractiveExecutor", "InteractiveStepExecutor", "execute_parallel_tasks",
        "execute_separate_tasks", "execute_tasks_with_dependencies", "_wait_for_free_slots",
        "_submit_waiting_task", "_submit_resolved_task", "_update_futures_in_input",
        "_get_future_objects_from_input", "_submit_function_to_separate_process", "_execute_task"],
    "executorlib/interactive/executor.py": ["ExecutorWithDependencies"],
    "executorlib/base/executor.py": ["ExecutorBase"],
    "executorlib/standalone/queue.py": ["cancel_items_in_queue"],
    "executorlib/standalone/thread.py": ["RaisingThread"],
    "executorlib/standalone/interactive/communication.py": ["SocketInterface", "interface_bootup"],
    "executorlib/standalone/interactive/spawner.py": ["SubprocessSpawner", "MpiExecSpawner"],
    "executorlib/backend/interactive_serial.py": ["main"],
}

# oracle name -> properties it decides
ORACLE_PROPS = {
    "value": {"C01", "C03", "C06"},
    "unexpected_failure": {"C01", "C04", "C06"},
    "exception_class": {"C04"},
    "exception_args": {"C04"},
    "lost_future": {"C02", "C04", "C06"},
    "await_starved": {"C02", "C03", "C07"},
    "not_done_after_wait": {"C02", "C05", "C06"},
    "no_hang": {"C02", "C05", "C06", "C07", "C12", "C04"},
    "shutdown_raised": {"C05"},
    "accepted_after_shutdown": {"C05"},
    "cancelled_call_executed": {"C06"},
    "cancelled_call_not_cancelled": {"C06"},
    "call_executed_twice": {"C01", "C11"},
    "dep_order": {"C03"},
    "resource_ceiling": {"C07"},
    "worker_overlap": {"C07", "C11"},
    "block_counter_sequence": {"C11"},
    "percall_process_reused": {"C11"},
    "single_worker_fifo": {"C11"},
    "ghost_process_after_wait": {"C12"},
    "ghost_process_at_end": {"C12"},
    "thread_alive_at_end": {"C12", "C05"},
    "not_done_after_wait_second_shutdown": {"C02"},
    "ghost_process_after_wait_second_shutdown": {"C12"},
}


def executed_failure(scen, judged):
    ex = judged["info"].get("executed", [])
    return any(scen["calls"][i].get("fail") for i in ex if i < len(scen["calls"]))


def depends_on_failed(scen, judged, i):
    """call i depends (through any number of steps) on a call that was executed and raised"""
    if i is None:
        return False
    from .sysmap import deps_of

    ex = set(judged["info"].get("executed", []))
    failed = {j for j in ex if j < len(scen["calls"]) and scen["calls"][j].get("fail")}
    # only a call ALL of whose own inputs are settled can be resolved (executorlib waits for every input; with block allocation
    # an input queued behind the failed call may never run)
    states = judged["info"].get("final_states") or {}
    if any(states.get(str(j), "pending") in ("pending", "running") for j in deps_of(scen["calls"][i])):
        return False
    seen, todo = set(), [i]
    while todo:
        k = todo.pop()
        for j in deps_of(scen["calls"][k]):
            if j in failed:
                return True
            if j not in seen and j < len(scen["calls"]):
                seen.add(j)
                todo.append(j)
    return False


def region_of(scen, judged, oracle):
    """Signature of the known-finding region a failing oracle falls into (None = outside all)."""
    ex = scen["executor"]
    name = oracle["oracle"]
    if name.endswith("_second_shutdown"):
        return {"region": "D26", "case": "shutdown(wait=True) after an earlier shutdown of the same executor"}
    if executed_failure(scen, judged):
        # (the deadlock leaves threads behind, never processes: the failed worker's process is stopped when its call fails, every
        # surviving thread stops its process before it joins the queue — ghost processes are outside the region)
        if ex.get("block_allocation") and ex.get("max_workers", 1) >= 2 and name in (
                "no_hang", "thread_alive_at_end", "not_done_after_wait"):
            return {"region": "D19", "case": "block allocation, >=2 workers, a call raised"}
        if not ex.get("block_allocation") and name in ("ghost_process_after_wait", "not_done_after_wait"):
            return {"region": "D17", "case": "one process per call, a call raised, shutdown(wait=True) re-raised"}
    return None


def starvation_probes():
    """Lost wake-ups in the resolver: X = f(A, B) is parked in front of six calls parked on G; A finishes, and B a few milliseconds
    later — inside the resolver's pass over its wait list, which schedule perturbation at every done() stretches to tens of
    milliseconds.  Three workers hold A, B, G, so a worker is free as soon as A returns.  The script then waits for X."""
    out = []
    for k, gap in enumerate([8, 15, 25, 40]):
        calls = [{"base": 1, "gate": 0, "args": [], "kwargs": {}}, {"base": 2, "gate": 1, "args": [], "kwargs": {}},
                 {"base": 4, "gate": 2, "args": [], "kwargs": {}}, {"base": 10, "args": [{"f": 0}, {"f": 1}], "kwargs": {}}]
        calls += [{"base": 100 + j, "args": [{"f": 2}], "kwargs": {}} for j in range(6)]
        script = [{"c": "submit"} for _ in calls] + [{"c": "wait_enter", "i": 0}, {"c": "wait_enter", "i": 1}, {"c": "wait_enter", "i": 2},
                                                      {"c": "sleep", "ms": 60}, {"c": "release", "g": 0}, {"c": "sleep", "ms": gap},
                                                      {"c": "release", "g": 1}, {"c": "await", "i": 3}, {"c": "release", "g": 2},
                                                      {"c": "shutdown", "wait": True, "cancel": False}]
        out.append({"executor": {"backend": "local", "block_allocation": True, "max_workers": 3, "disable_dependencies": False},
                    "calls": calls, "script": script, "gates": [0, 1, 2], "perturb": {"resolver": 1.0}, "seed": 40 + k, "timeout": 20,
                    "settle": 6, "await_timeout": 3.0, "starvation_probe": True})
    return out


TIMING_ORACLES = {"no_hang", "lost_future", "thread_alive_at_end", "ghost_process_at_end", "await_starved"}


def confirm_timing(m, prop, scen, tries=2):
    """Re-run a scenario whose only failing oracles depend on a time limit with three times the limits (same schedule seed).
    Returns (out, judged) of the first re-run in which a relevant oracle fails again, None when none does."""
    s2 = copy.deepcopy(clean(scen))
    s2["timeout"] = 3 * scen.get("timeout", 10)
    s2["settle"] = 3 * scen.get("settle", 6)
    if scen.get("await_timeout"):
        s2["await_timeout"] = 3 * scen["await_timeout"]
    for _ in range(tries):
        out = eb.run_many([s2], jobs=1)[0]
        try:
            judged = eb.judge(m, s2, out)
        except InfraError:
            continue
        if relevant(prop, judged, s2):
            return out, judged
    return None


def relevant(prop, judged, scen):
    out = []
    for o in judged["oracles"]:
        if prop in ORACLE_PROPS.get(o["oracle"], set()):
            # block allocation promises nothing about calls queued behind a failed one (C04 statement)
            # … but "a call that depends on a failed future fails too instead of waiting for ever" holds in every mode: a pending
            # (transitive) dependent of a call that failed is judged
            if o["oracle"] in ("lost_future", "not_done_after_wait") and executed_failure(scen, judged) and (
                    scen["executor"].get("block_allocation")) and prop in ("C04",) and not depends_on_failed(scen, judged, o.get("i")):
                continue
            out.append(o)
    return out


def shrink(scen):
    """Candidate smaller scenarios (drop one script command that is not a submit; drop the last call)."""
    out = []
    sc = scen["script"]
    for k, c in enumerate(sc):
        if c["c"] in ("sleep", "await", "wait_enter"):
            s2 = copy.deepcopy(scen)
            del s2["script"][k]
            out.append(s2)
    return out


def campaign(ctx: Ctx, prop: str, profile: dict, n: int, corpus: list, required_labels: list,
             seeds_on_diff: int = 6) -> dict:
    m = ctx.model
    rng = ctx.rng
    scens = [dict(copy.deepcopy(s), _corpus=True) for s in corpus]
    scens += [eb.gen_scenario(rng, profile) for _ in range(n)]
    label_cov = {}
    n_ok = n_known = 0
    diffs, fails = [], []
    known_hits = {}
    rounds = 0
    validated = 0
    timing_confirmed, timing_tried = set(), {}
    while True:
        outs = eb.run_many(scens, jobs=int(os.environ.get("VERIF_JOBS", "12")))
        for scen, out in zip(scens, outs):
            judged = eb.judge(m, scen, out)
            # foreign bytes on a worker's socket (another job on this machine - a leaked worker still reconnecting - reached a port
            # zmq has just handed out again): the run says nothing about the library; it is done once more, alone
            for _ in range(2):
                d0 = judged.get("diff") or {}
                if "UnpicklingError" in str(d0.get("detail", "")) or "UnpicklingError" in str(d0.get("event", "")):
                    ctx.count("rerun_after_foreign_bytes_on_socket")
                    out = eb.run_many([scen], jobs=1)[0]
                    judged = eb.judge(m, scen, out)
                else:
                    break
            for l in judged["info"].get("label_kinds", []):
                label_cov[l] = label_cov.get(l, 0) + 1
            ex = scen["executor"]
            ctx.case({"executor": ex, "calls": len(scen["calls"]), "script": [c["c"] for c in scen["script"]]},
                     nontrivial=len(scen["calls"]) >= 2 or len(scen["script"]) >= 3)
            ctx.count("mode.block" if ex.get("block_allocation") else "mode.percall")
            if ex.get("cache_directory"):
                ctx.count("with_cache_directory")
            ctx.count("resolver.on" if not ex.get("disable_dependencies") else "resolver.off")
            ctx.count("calls.%d" % len(scen["calls"]))
            for c in scen["script"]:
                ctx.count("script." + c["c"])
            if any(c.get("fail") for c in scen["calls"]):
                ctx.count("has_failing_call")
            if any(eb.deps_of(c) for c in scen["calls"]):
                ctx.count("has_dependencies")
            if judged["diff"] is not None:
                diffs.append((scen, out, judged))
            else:
                validated += 1
            rel = relevant(prop, judged, scen)
            if not rel:
                n_ok += judged["diff"] is None
                continue
            unknown = []
            for o in rel:
                reg = region_of(scen, judged, o)
                sig = dict(reg or {}, oracle=o["oracle"])
                if reg is not None and any(
                        k.get("status") == "known" and k.get("signature", {}).get("region") == reg["region"]
                        for k in ctx.known):
                    known_hits.setdefault(reg["region"], []).append(o["oracle"])
                else:
                    unknown.append((sig, o))
            if unknown and all(o["oracle"] in TIMING_ORACLES for _, o in unknown):
                # decided by a time limit: a loaded machine can produce it on correct code; it counts only when it
                # happens again with three times the limits
                tkey = (tuple(sorted(o["oracle"] for _, o in unknown)), bool(scen["executor"].get("block_allocation")),
                        bool(scen["executor"].get("disable_dependencies")))
                if tkey in timing_confirmed:
                    conf = (out, judged)
                elif timing_tried.get(tkey, 0) >= 3:
                    conf = None
                else:
                    timing_tried[tkey] = timing_tried.get(tkey, 0) + 1
                    conf = confirm_timing(m, prop, scen)
                    if conf is not None:
                        timing_confirmed.add(tkey)
                if conf is None:
                    ctx.count("timing_oracle_not_confirmed")
                    unknown = []
                else:
                    out, judged = conf
                    unknown = [(dict(region_of(scen, judged, o) or {}, oracle=o["oracle"]), o) for o in relevant(prop, judged, scen)]
                    unknown = [(sg, o) for sg, o in unknown if not (sg.get("region") and any(
                        k.get("status") == "known" and k.get("signature", {}).get("region") == sg["region"] for k in ctx.known))]
            if unknown:
                fails.append((scen, out, judged, unknown))
            else:
                n_known += 1
        missing = [l for l in required_labels if label_cov.get(l, 0) == 0]
        rounds += 1
        if not missing or rounds >= 4 or diffs or fails:
            break
        scens = [eb.gen_scenario(rng, profile) for _ in range(max(20, n // 3))]
    if missing and not diffs and not fails:
        raise InfraError(f"generator did not exercise required model transitions {missing} after {rounds} rounds")

    # ---- known findings
    for reg in known_hits:
        for k in ctx.known:
            if k.get("status") == "known" and k.get("signature", {}).get("region") == reg and k not in ctx.known_hits:
                ctx.known_hits.append(k)

    # ---- failing inputs found directly
    seen = set()
    for scen, out, judged, unknown in fails:
        key = tuple(sorted(s["oracle"] for s, _ in unknown))
        if key in seen:
            continue
        seen.add(key)
        sig = {"kind": "oracle" if judged["diff"] is None else "correspondence+oracle", "oracles": list(key), "failing_input": True}
        sig.update({k: v for k, v in unknown[0][0].items() if k in ("region",)})
        ctx.violation(sig, {"what": "property oracle failed on the real executor", "scenario": clean(scen),
                            "oracles": [o for _, o in unknown], "info": judged["info"], "difference": judged["diff"],
                            "events_tail": out.get("events", [])[-40:], "obs": out.get("obs")})

    # ---- correspondence differences without a failing input so far: search for one
    searched = 0
    if diffs and not fails:
        found = None
        # (1) the differing scenarios themselves under other schedule seeds, (2) a fresh, larger campaign
        tries = []
        for scen, out, judged in diffs[:4]:
            for k in range(seeds_on_diff):
                s2 = copy.deepcopy(clean(scen))
                s2["seed"] = (scen.get("seed", 0) + 7919 * (k + 1)) % (1 << 30)
                s2["perturb"] = {r: [0, 0.2, 0.5, 0.8][(k + j) % 4] for j, r in enumerate(("main", "resolver", "disp", "worker"))}
                tries.append(s2)
        import random as _random

        srng = _random.Random(f"search:{prop}:{ctx.seed}")
        tries += [copy.deepcopy(clean(sc)) for sc in corpus]
        tries += [eb.gen_scenario(srng, profile) for _ in range(max(150, 2 * n) if ctx.tier == "quick" else 3 * n)]
        for lo in range(0, len(tries), 60):
            chunk = tries[lo:lo + 60]
            outs2 = eb.run_many(chunk, jobs=int(os.environ.get("VERIF_JOBS", "12")))
            searched += len(chunk)
            for s2, o2 in zip(chunk, outs2):
                try:
                    j2 = eb.judge(m, s2, o2)
                except InfraError:
                    continue
                rel = [o for o in relevant(prop, j2, s2)
                       if not (region_of(s2, j2, o) and any(k.get("status") == "known" and k["signature"].get("region") == region_of(s2, j2, o)["region"] for k in ctx.known))]
                if rel:
                    found = (s2, o2, j2, rel)
                    break
            if found:
                break
        scen, out, judged = diffs[0]
        if found:
            s2, o2, j2, rel = found
            ctx.violation({"kind": "correspondence+oracle", "oracles": sorted(set(o["oracle"] for o in rel)), "failing_input": True},
                          {"what": "traces of the real executor are not runs of the Lean model Sys, and the property oracle fails on this input "
                                   "(found by the failing-input search after the correspondence broke)",
                           "scenario": clean(s2), "oracles": rel, "first_difference": judged["diff"], "difference_here": j2["diff"],
                           "info": j2["info"], "events_tail": o2.get("events", [])[-40:], "obs": o2.get("obs")})
        else:
            ctx.violation({"kind": "correspondence", "failing_input": False},
                          {"what": "trace of the real executor is not a run of the Lean model Sys (engine B trace validation); "
                                   "the theorems of Props/%s*.lean are no longer shown to apply to the code; no failing input found in %d further executions"
                                   % (prop, searched),
                           "correspondence": "engine B: vh.sysmap.map_events + modeld sys_replay (Sys.step)",
                           "theorems_no_longer_applicable": "ExecModel/Props/%s*.lean" % prop,
                           "differing_scenarios": len(diffs),
                           "scenario": clean(scen), "difference": judged["diff"],
                           "labels_tail": judged["labels"][-25:], "events_tail": out.get("events", [])[-40:]},
                          no_input=True)
    ctx.oblige("correspondence: every executed trace is a run of Sys.step (trace validation by modeld)", not diffs,
               f"{validated} traces accepted, {len(diffs)} rejected")
    ctx.oblige(f"oracles of {prop} hold on every executed scenario outside the listed known regions", not fails,
               f"{n_ok} clean, {n_known} only inside known regions, {len(fails)} failing")
    ctx.oblige("model transition coverage: required labels exercised by accepted traces", not missing or bool(diffs or fails),
               "required=%s" % required_labels)
    return {
        "traces_validated_against_impl": validated,
        "differences": len(diffs),
        "oracle_failures": len(fails),
        "inside_known_regions": n_known,
        "label_coverage": label_cov,
        "labels_total": 57,
        "labels_covered": len(label_cov),
        "required_labels": required_labels,
        "rounds": rounds,
        "ast_hashes": ast_hashes(ANCHORS),
    }


def clean(scen):
    return {k: v for k, v in scen.items() if not k.startswith("_") and k != "workdir"}


def replay(ctx: Ctx, prop: str, path: str, times: int = 5):
    """Re-execute a stored scenario several times and judge it again."""
    data = json.load(open(path))
    scen = data.get("scenario")
    if scen is None:
        raise InfraError("replay file has no scenario")
    outs = eb.run_many([copy.deepcopy(scen) for _ in range(times)], jobs=times)
    bad = 0
    for o in outs:
        j = eb.judge(ctx.model, scen, o)
        ctx.case({"replay": os.path.basename(path)})
        rel = relevant(prop, j, scen)
        if j["diff"] is not None or rel:
            bad += 1
            ctx.violation({"kind": "replay", "failing_input": bool(rel)},
                          {"scenario": scen, "difference": j["diff"], "oracles": rel}, no_input=not rel)
            break
    ctx.oblige("replay reproduces no violation", bad == 0)
    return {"rule": "replay of a stored scenario", "traces_validated_against_impl": times}


TRUST = [
    "engine B: tracing subclasses of queue.Queue / concurrent.futures.Future and wrappers of RaisingThread, SocketInterface, SubprocessSpawner injected before executorlib is imported (no source hooks); log order under one global lock = linearisation order",
    "event -> label mapper vh.sysmap (table driven; an unmapped event is a difference)",
    "CPython semantics of queue.Queue, Future, Thread.join as modelled in Sys; zmq PAIR as reliable FIFO; functions submitted by the scenarios terminate; weak fairness of the OS scheduler",
]
