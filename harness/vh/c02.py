"""C02 — no lost futures.  Lean: Props/C02.lean (runs_are_finite, no_lost_futures over Sys: every run
is finite and ends in a state with nothing enabled, where every accepted future is done) resting on
the protocol invariant Live (proved inductive) and the progress theorem stuck_final.  Tie: engine B
with histories of submit / cancel / await / shutdown(wait, cancel_futures) placed anywhere, programs
of independent and dependent calls, all modes, 1-3 workers: trace validation, the executable
invariants evaluated on every state of every replayed trace, and the oracles 'all futures done'."""
from __future__ import annotations

from .common import Ctx, InfraError, run_check
from . import sysprop
from . import engine_b as eb

PROFILE = {"array_p": 0.4, "fail": 0.0, "cancel": True, "cancel_p": 0.2, "deps": True, "multi_shutdown": True, "mid_shutdown": True,
           "mid_shutdown_p": 0.12, "gate_p": 0.4, "block_res_p": 0.03, "no_final_shutdown_p": 0.15, "timeout": 15}

CORPUS = [
    # a call with two inputs, the SECOND one cancelled while the first is still parked behind a running call: the dependent
    # fails with CancelledError once both are settled, nothing blocks
    {"executor": {"backend": "local", "block_allocation": True, "max_workers": 2, "disable_dependencies": False},
     "calls": [{"base": 1, "gate": 0, "args": [], "kwargs": {}}, {"base": 10, "args": [{"f": 0}], "kwargs": {}},
               {"base": 20, "args": [{"f": 0}], "kwargs": {}}, {"base": 100, "args": [{"f": 1}, {"f": 2}], "kwargs": {}}],
     "script": [{"c": "submit"}, {"c": "submit"}, {"c": "submit"}, {"c": "submit"}, {"c": "wait_enter", "i": 0}, {"c": "cancel", "i": 2},
                {"c": "sleep", "ms": 100}, {"c": "release", "g": 0}, {"c": "shutdown", "wait": True, "cancel": False}],
     "gates": [0], "perturb": {}, "seed": 9, "timeout": 15, "settle": 6},
    # D1 witness (fixed): a queued call is cancelled, then shutdown(wait=True)
    {"executor": {"backend": "local", "block_allocation": True, "max_workers": 1, "disable_dependencies": True},
     "calls": [{"base": 1, "gate": 0, "args": [], "kwargs": {}}, {"base": 2, "args": [], "kwargs": {}}],
     "script": [{"c": "submit"}, {"c": "submit"}, {"c": "wait_enter", "i": 0}, {"c": "cancel", "i": 1},
                {"c": "release", "g": 0}, {"c": "shutdown", "wait": True, "cancel": False}],
     "gates": [0], "perturb": {}, "seed": 1, "timeout": 15, "settle": 6},
    # D2 witness (fixed): a dependent still parked when the with-block exits
    {"executor": {"backend": "local", "block_allocation": False, "max_cores": 2, "disable_dependencies": False},
     "calls": [{"base": 1, "gate": 0, "args": [], "kwargs": {}}, {"base": 10, "args": [{"f": 0}], "kwargs": {}},
               {"base": 100, "args": [{"l": [{"f": 1}, {"v": 2}]}], "kwargs": {}}],
     "script": [{"c": "submit"}, {"c": "submit"}, {"c": "submit"}, {"c": "release", "g": 0}, {"c": "shutdown", "wait": True, "cancel": False}],
     "gates": [0], "perturb": {}, "seed": 2, "timeout": 15, "settle": 6},
    # dropped without shutdown(wait=True): futures still complete
    {"executor": {"backend": "local", "block_allocation": True, "max_workers": 2, "disable_dependencies": False},
     "calls": [{"base": 1, "args": [], "kwargs": {}}, {"base": 10, "args": [{"f": 0}], "kwargs": {}}],
     "script": [{"c": "submit"}, {"c": "submit"}, {"c": "shutdown", "wait": False, "cancel": False}],
     "gates": [], "perturb": {}, "seed": 3, "timeout": 15, "settle": 6},
]

CORPUS.append(
    # two parked calls of one function whose positional arguments cannot be compared (numpy arrays), the later one ready first
    {"executor": {"backend": "local", "block_allocation": True, "max_workers": 2, "disable_dependencies": False},
     "calls": [{"base": 1, "gate": 0, "args": [], "kwargs": {}}, {"base": 10, "gate": 1, "args": [], "kwargs": {}},
               {"base": 100, "args": [{"a": [1, 2, 3]}, {"f": 0}], "kwargs": {}}, {"base": 1000, "args": [{"a": [4, 5, 6]}, {"f": 1}], "kwargs": {}},
               {"base": 10000, "args": [{"a": [7, 8, 9]}, {"f": 3}], "kwargs": {}}],
     "script": [{"c": "submit"}, {"c": "submit"}, {"c": "submit"}, {"c": "submit"}, {"c": "submit"}, {"c": "sleep", "ms": 40},
                {"c": "release", "g": 1}, {"c": "await", "i": 3}, {"c": "release", "g": 0}, {"c": "shutdown", "wait": True, "cancel": False}],
     "gates": [0, 1], "perturb": {}, "seed": 4, "timeout": 15, "settle": 6})

CORPUS = CORPUS + sysprop.starvation_probes()

REQUIRED = ["sdDrainGet", "sdDrainCancel", "sdPutStop", "sdJoinThread", "sdJoinQueue", "sdFinish", "rBeginSd", "rScanFwd",
            "wProcStop", "wJoinExit", "dJoinThread", "dJoinExit", "mCancel", "mAwait", "rDecidePark"]


def invariants_on_traces(ctx: Ctx, prop: str, profile: dict, n: int):
    """The executable protocol invariants (SysLiveDefs.liveInvList) on every state of replayed real traces, and the
    final-state predicates of stuck_final on their last state."""
    from .sysmap import MapError, map_events, model_case

    scens = [eb.gen_scenario(ctx.rng, dict(profile, fail=0.0)) for _ in range(n)]
    outs = eb.run_many(scens, jobs=12)
    checked = stuck = 0
    bad = []
    for s, o in zip(scens, outs):
        if "events" not in o:
            continue
        try:
            labels, _ = map_events(s, o["events"])
        except MapError:
            continue           # reported by the campaign's trace validation
        r = ctx.model.ask("sys_check_inv", labels=labels, **model_case(s, o["obs"]))
        if not r.get("accepted"):
            continue
        checked += 1
        if r.get("violated"):
            bad.append({"scenario": sysprop.clean(s), "violated": r["violated"], "index": r["index"], "label": r["label"]})
        elif r["stuck"]:
            stuck += 1
            if not (r["allAcceptedDone"] and r["mainFinished"] and (r["frontOpen"] or r["noProcessAlive"])):
                bad.append({"scenario": sysprop.clean(s), "final": r})
    if bad:
        raise InfraError("a proved invariant / theorem is contradicted by the driver on a replayed trace: %s" % str(bad[0])[:800])
    return checked, stuck


def body(ctx: Ctx):
    if ctx.replay_file:
        import json
        payload = json.load(open(ctx.replay_file))
        if "exit_scenario" in payload:
            from . import exit_check
            return exit_check.replay(ctx, "C02", payload)
        return sysprop.replay(ctx, "C02", ctx.replay_file)
    n = 100 if ctx.tier == "quick" else 1000
    res = sysprop.campaign(ctx, "C02", PROFILE, n, CORPUS, REQUIRED)
    checked, stuck = invariants_on_traces(ctx, "C02", PROFILE, 40 if ctx.tier == "quick" else 400)
    ctx.oblige("executable invariants (liveInvList) hold in every state of %d replayed traces; %d of them end in a state with nothing "
               "enabled, all accepted futures done, script finished" % (checked, stuck), True)
    from . import exit_check
    res["script_exit_scenarios"] = exit_check.decide(ctx, "C02", 12 if ctx.tier == "quick" else 80)
    res["invariant_traces"] = checked
    res["stuck_end_states"] = stuck
    res["rule"] = ("engine B: programs of 1-6 independent and dependent calls (no failing call: the property's hypothesis), user scripts "
                   "interleaving submit, cancel, await, sleep and shutdown(wait, cancel_futures) in all four combinations anywhere and "
                   "repeatedly, 15% ending without shutdown(wait=True) (drop), block executors with 1-3 workers and per-call executors, "
                   "resolver on/off, seeded schedule perturbation; oracles: every future done when shutdown(wait=True) returned, "
                   "every future done eventually, no hang; non-trivial = >= 2 calls or >= 3 script commands; plus script-exit scenarios (a child "
                   "interpreter whose user script ends while calls are running or queued after shutdown(wait=False) / del / nothing): "
                   "every submitted call completes")
    res["trusted_base_extra"] = sysprop.TRUST
    return res


def main(argv=None):
    run_check("C02", body, argv)


if __name__ == "__main__":
    main()
