"""Runs ONE configuration of executorlib.Executor with a trivial call (own process, killed by the
caller on timeout):  python -m vh.config_runner <opts.json>  -> one JSON line on stdout.
Outcome: construct (exception class | None), submit (exception class | None), result
("ok" | exception class | "pending"), shutdown ("returned" | exception class | "hang" | "skipped")."""
from __future__ import annotations

import json
import os
import sys
import tempfile
import threading


def f_plain(x):
    return x + 1


def f_rd(x, resource_dict=None):
    return x + 1


def init_fn():
    return {"y": 1}


def concrete_rd(a, work):
    if a is None:
        return None
    d = {}
    for k in ("cores", "threads_per_core", "gpus_per_core", "openmpi_oversubscribe"):
        if k in a:
            d[k] = a[k]
    if a.get("cwd") == "none":
        d["cwd"] = None
    elif a.get("cwd") == "ok":
        d["cwd"] = work
    elif a.get("cwd") == "missing":
        d["cwd"] = os.path.join(work, "does", "not", "exist")
    if a.get("slurm_cmd_args") == "empty":
        d["slurm_cmd_args"] = []
    elif a.get("slurm_cmd_args") == "nonempty":
        d["slurm_cmd_args"] = ["--mem=1G"]
    if a.get("unknown_key"):
        d["foo"] = 1
    return d


def timed(fn, timeout):
    box = {}

    def run():
        try:
            box["v"] = ("ok", fn())
        except BaseException as e:  # noqa
            box["v"] = ("exc", e)

    th = threading.Thread(target=run, daemon=True)
    th.start()
    th.join(timeout)
    return box.get("v", ("timeout", None))


def main():
    o = json.load(open(sys.argv[1]))
    work = tempfile.mkdtemp(prefix="vh_cfg_")
    os.chdir(work)
    out = {"construct": None, "submit": None, "result": None, "shutdown": "skipped"}
    import executorlib

    out["pin"] = executorlib.__file__
    kw = {"backend": o["backend"], "block_allocation": o["block_allocation"], "disable_dependencies": o["disable_dependencies"]}
    if o.get("max_workers") is not None:
        kw["max_workers"] = o["max_workers"]
    if o.get("max_cores") is not None:
        kw["max_cores"] = o["max_cores"]
    rd = concrete_rd(o.get("rd"), work)
    if rd is not None:
        kw["resource_dict"] = rd
    if o.get("init_function"):
        kw["init_function"] = init_fn
    if o.get("hostname_localhost") is not None:
        kw["hostname_localhost"] = o["hostname_localhost"]
    if o.get("refresh_rate") == "other":
        kw["refresh_rate"] = 0.05
    elif o.get("refresh_rate") == "negative":
        kw["refresh_rate"] = -0.01
    if o.get("flux_executor"):
        kw["flux_executor"] = object()
    if o.get("pmi") == "pmix":
        kw["flux_executor_pmi_mode"] = "pmix"
    elif o.get("pmi") == "bad":
        kw["flux_executor_pmi_mode"] = "foo"
    if o.get("nesting"):
        kw["flux_executor_nesting"] = True
    if o.get("pysqa_config_directory"):
        kw["pysqa_config_directory"] = os.path.join(work, "pysqa")
    if o.get("plot"):
        kw["plot_dependency_graph"] = True
    if o.get("cache_directory"):
        kw["cache_directory"] = os.path.join(work, "cache")
    st, v = timed(lambda: executorlib.Executor(**kw), 15)
    if st != "ok":
        out["construct"] = type(v).__name__ if st == "exc" else "TIMEOUT"
        print(json.dumps(out), flush=True)
        os._exit(0)
    exe = v
    fn = f_rd if o.get("fn_has_resource_dict_param") else f_plain
    pc = concrete_rd(o.get("percall"), work)
    st, v = timed(lambda: exe.submit(fn, 1, resource_dict=pc) if pc is not None else exe.submit(fn, 1), 10)
    if st != "ok":
        out["submit"] = type(v).__name__ if st == "exc" else "TIMEOUT"
    else:
        fut = v
        import concurrent.futures as cf

        # the same call a second time, submitted while the first may still be running (both must run)
        st2, v2 = timed(lambda: exe.submit(fn, 1, resource_dict=pc) if pc is not None else exe.submit(fn, 1), 10)
        futs = [fut] + ([v2] if st2 == "ok" else [])
        if st2 != "ok":
            out["submit2"] = type(v2).__name__ if st2 == "exc" else "TIMEOUT"
        res = []
        for fu in futs:
            try:
                r = fu.result(timeout=o.get("result_timeout", 6))
                res.append("ok" if (r == 2 or (isinstance(r, list) and all(x == 2 for x in r)) or (o.get("plot") and r is None)) else "wrong:%r" % (r,))
            except cf.TimeoutError:
                res.append("pending")
            except BaseException as e:  # noqa
                res.append(type(e).__name__)
        # the SAME dictionary object, changed in place by the caller, submitted once more AFTER the earlier calls have finished (they hold
        # a reference to it): judged on its new content
        if pc is not None and o.get("percall_then") is not None and st2 == "ok" and all(x == "ok" for x in res):
            pc.clear()
            pc.update(concrete_rd(o["percall_then"], work))
            st3, v3 = timed(lambda: exe.submit(fn, 1, resource_dict=pc), 10)
            out["submit3"] = None if st3 == "ok" else (type(v3).__name__ if st3 == "exc" else "TIMEOUT")
            if st3 == "ok":
                try:
                    r3 = v3.result(timeout=o.get("result_timeout", 6))
                    out["result3"] = "ok" if (r3 == 2 or (isinstance(r3, list) and all(x == 2 for x in r3))) else "wrong:%r" % (r3,)
                except cf.TimeoutError:
                    out["result3"] = "pending"
                except BaseException as e:  # noqa
                    out["result3"] = type(e).__name__
        out["result"] = "ok" if all(x == "ok" for x in res) and st2 == "ok" else next((x for x in res if x != "ok"), "second submit refused")
        out["results"] = res
    st, v = timed(lambda: exe.shutdown(wait=True), o.get("shutdown_timeout", 6))
    out["shutdown"] = "returned" if st == "ok" else (type(v).__name__ if st == "exc" else "hang")
    print(json.dumps(out), flush=True)
    os._exit(0)


if __name__ == "__main__":
    main()
