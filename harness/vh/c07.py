"""C07 — resource ceiling.  Lean: Props/C07.lean (ceiling_cores, ceiling_workers, ceiling_block) over
Sys; tie: engine B with gated calls holding slots open so that the limit is reached, interval sweep."""
from __future__ import annotations

from .common import Ctx, run_check
from . import sysprop

PROFILE = {"fail": 0.0, "cancel": True, "cancel_p": 0.06, "deps": True, "multi_shutdown": False, "mid_shutdown": False,
           "gate_p": 0.75, "block_res_p": 0.0, "resolver_p": 0.4, "resources": True, "res_p": 0.7,
           "ncalls": [3, 4, 5, 6, 7, 8], "modes": ["percall", "percall", "percall", "block"]}

CORPUS = [
    # limit 2: a 2-slot call must wait until both 1-slot calls have finished
    {"executor": {"backend": "local", "block_allocation": False, "max_cores": 2, "disable_dependencies": True},
     "calls": [{"base": 1, "gate": 0, "args": [], "kwargs": {}}, {"base": 10, "gate": 1, "args": [], "kwargs": {}},
               {"base": 100, "args": [], "kwargs": {}, "resource_dict": {"threads_per_core": 2}}, {"base": 1000, "args": [], "kwargs": {}}],
     "script": [{"c": "submit"}, {"c": "submit"}, {"c": "submit"}, {"c": "submit"}, {"c": "sleep", "ms": 20}, {"c": "release", "g": 0},
                {"c": "sleep", "ms": 900}, {"c": "release", "g": 1}, {"c": "shutdown", "wait": True, "cancel": False}],
     "gates": [0, 1], "perturb": {}, "seed": 1, "timeout": 20, "settle": 6},
    # limit 3, a 2-slot and a 1-slot call running, a 2-slot call waiting: the 1-slot call finishes first (one slot free is not enough)
    {"executor": {"backend": "local", "block_allocation": False, "max_cores": 3, "disable_dependencies": True},
     "calls": [{"base": 1, "gate": 0, "args": [], "kwargs": {}, "resource_dict": {"threads_per_core": 2}}, {"base": 10, "gate": 1, "args": [], "kwargs": {}},
               {"base": 100, "args": [], "kwargs": {}, "resource_dict": {"cores": 1, "threads_per_core": 2}}],
     "script": [{"c": "submit"}, {"c": "submit"}, {"c": "submit"}, {"c": "wait_enter", "i": 1}, {"c": "release", "g": 1},
                {"c": "sleep", "ms": 900}, {"c": "release", "g": 0}, {"c": "shutdown", "wait": True, "cancel": False}],
     "gates": [0, 1], "perturb": {}, "seed": 3, "timeout": 20, "settle": 6},
    {"executor": {"backend": "local", "block_allocation": False, "max_workers": 1, "disable_dependencies": True},
     "calls": [{"base": 1, "gate": 0, "args": [], "kwargs": {}}, {"base": 10, "args": [], "kwargs": {}}, {"base": 100, "args": [], "kwargs": {}}],
     "script": [{"c": "submit"}, {"c": "submit"}, {"c": "submit"}, {"c": "sleep", "ms": 20}, {"c": "release", "g": 0},
                {"c": "shutdown", "wait": True, "cancel": False}],
     "gates": [0], "perturb": {}, "seed": 2, "timeout": 20, "settle": 6},
]

CORPUS.append(
    # D18 witness (fixed 8703212): executor-level threads_per_core = 2 under max_cores = 2: the two calls must not overlap
    {"executor": {"backend": "slurm_allocation", "hostname_localhost": True, "block_allocation": False, "max_cores": 2,
                  "disable_dependencies": True, "resource_dict": {"threads_per_core": 2}},
     "calls": [{"base": 1, "gate": 0, "args": [], "kwargs": {}}, {"base": 10, "args": [], "kwargs": {}}],
     "script": [{"c": "submit"}, {"c": "submit"}, {"c": "wait_enter", "i": 0}, {"c": "sleep", "ms": 900}, {"c": "release", "g": 0},
                {"c": "shutdown", "wait": True, "cancel": False}],
     "gates": [0], "perturb": {}, "seed": 5, "timeout": 20, "settle": 6})

CORPUS.append(
    # a raising call first, then more gated calls than the limit admits: the slots of the failed call come back exactly once
    {"executor": {"backend": "local", "block_allocation": False, "max_cores": 2, "disable_dependencies": True},
     "calls": [{"base": 1, "fail": "value", "args": [], "kwargs": {}}] + [{"base": 10 * k, "gate": 0, "args": [], "kwargs": {}} for k in (1, 2, 3, 4)],
     "script": [{"c": "submit"}, {"c": "await", "i": 0}, {"c": "submit"}, {"c": "submit"}, {"c": "submit"}, {"c": "submit"},
                {"c": "wait_enter", "i": 1}, {"c": "wait_enter", "i": 2}, {"c": "sleep", "ms": 900}, {"c": "release", "g": 0},
                {"c": "shutdown", "wait": True, "cancel": False}],
     "gates": [0], "perturb": {}, "seed": 6, "timeout": 20, "settle": 6})
CORPUS.append(
    {"executor": {"backend": "local", "block_allocation": False, "max_workers": 2, "disable_dependencies": False},
     "calls": [{"base": 1, "fail": "user", "args": [], "kwargs": {}}] + [{"base": 10 * k, "gate": 0, "args": [], "kwargs": {}} for k in (1, 2, 3, 4)],
     "script": [{"c": "submit"}, {"c": "await", "i": 0}, {"c": "submit"}, {"c": "submit"}, {"c": "submit"}, {"c": "submit"},
                {"c": "wait_enter", "i": 1}, {"c": "wait_enter", "i": 2}, {"c": "sleep", "ms": 900}, {"c": "release", "g": 0},
                {"c": "shutdown", "wait": True, "cancel": False}],
     "gates": [0], "perturb": {}, "seed": 7, "timeout": 20, "settle": 6})

REQUIRED = ["dGet", "dLaunch", "dPrune", "dAck", "wSend", "wFinish"]


def body(ctx: Ctx):
    if ctx.replay_file:
        return sysprop.replay(ctx, "C07", ctx.replay_file)
    n = 80 if ctx.tier == "quick" else 800
    res = sysprop.campaign(ctx, "C07", PROFILE, n, CORPUS, REQUIRED)
    res["rule"] = ("engine B: per-call executors with max_cores 1-4 / max_workers 1-3 / no limit and block executors with 1-3 workers; 3-8 "
                   "calls, 70% with a per-call resource_dict (threads_per_core 1-3, capped at the limit: larger requests starve, finding D10), "
                   "75% gated so that calls stay open and the limit is reached; oracle: sweep over [enter, exit] intervals of the function "
                   "bodies weighted by cores x threads_per_core <= limit; per-pid intervals disjoint; non-trivial = >=2 calls")
    res["trusted_base_extra"] = sysprop.TRUST + ["function bodies log enter/exit with CLOCK_MONOTONIC into an O_APPEND file"]
    return res


def main(argv=None):
    run_check("C07", body, argv)


if __name__ == "__main__":
    main()
