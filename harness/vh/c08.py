"""C08 — cache soundness.  Lean: Props/C08.lean (blank_only_digits, key_collision_only_kernel_digits,
different_calls_different_keys; counterexample for the greedy pattern D7), Props/C08Cache.lean
(cache_sound over the transition system Cache for any number of workers, calls, interleavings and
sessions; counterexample for in-place publication D12).  Tie: `_get_hash` against `Key.blank` on
marker-rich byte strings; `serialize_funct_h5` on call pairs differing in exactly one component;
engine C histories on real executors with the h5py stand-in (trace validation against Cache.step)."""
from __future__ import annotations

import hashlib
import json
import random

from .common import Ctx, InfraError, ast_hashes, run_check
from . import cache_engine as ce

ANCHORS = {
    "executorlib/standalone/serialize.py": ["serialize_funct_h5", "_get_hash"],
    "executorlib/interactive/shared.py": ["_execute_task_with_cache"],
    "executorlib/standalone/hdf.py": ["dump", "get_output"],
}

PIECES = [b"/ipykernel_", b"/", b"\n", b"0", b"1", b"23", b"456", b"x", b"_", b"ipykernel", b"/tmp", b"kernel_7/", b"\x80\x05", b".", b"/ipykernel_9/"]

CORPUS = [
    # D12 witness: the same call on two workers at once (entry must never be visible incomplete)
    {"workers": 2, "resolver": False, "block": True, "delay": 0.6, "seed": 3, "perturb": {},
     "sessions": [[{"fn": 0, "arg": 1, "kw": None}, {"fn": 0, "arg": 1, "kw": None}, {"fn": 1, "arg": 2, "kw": 5}, {"fn": 0, "arg": 1, "kw": None}],
                  [{"fn": 0, "arg": 1, "kw": None}, {"fn": 2, "arg": 9, "kw": None}]], "timeout": 60},
    {"workers": 3, "resolver": False, "block": True, "delay": 0.6, "seed": 4, "perturb": {},
     "sessions": [[{"fn": 1, "arg": 3, "kw": None}] * 5], "timeout": 60},
]


def _toplevel(x):
    return ("toplevel", 1, x)


def toplevel_pair():
    """A top-level function of the running main module, then re-defined under the same name with another body (an
    edited script / re-executed notebook cell): the two calls differ in the function and must not share a key."""
    import sys
    from executorlib.standalone.serialize import serialize_funct_h5

    mod = sys.modules[_toplevel.__module__]
    first = mod._toplevel
    k1, _ = serialize_funct_h5(first, fn_args=[3], fn_kwargs={}, resource_dict={})
    g = {"__name__": mod.__name__}
    exec("def _toplevel(x):\n    return ('toplevel', 2, x * 100)\n", g)
    second = g["_toplevel"]
    second.__module__ = mod.__name__
    mod._toplevel = second
    try:
        k2, _ = serialize_funct_h5(second, fn_args=[3], fn_kwargs={}, resource_dict={})
    finally:
        mod._toplevel = first
    return k1, k2


def gen_bytes(rng):
    return b"".join(rng.choice(PIECES) for _ in range(rng.choice([1, 2, 3, 5, 8, 12])))


def key_pairs(ctx: Ctx):
    """serialize_funct_h5 on pairs of calls: identical -> same key; differing in exactly one of
    function, positional arguments, keyword arguments, resources -> different keys; differing only
    in the digits of a /ipykernel_<digits>/ segment -> same key (deliberate)."""
    from executorlib.standalone.serialize import serialize_funct_h5

    fns = {}

    def mk(name, body):
        # one function object per (name, body): "the same call" means an identical serialized form
        if (name, body) not in fns:
            g = {"__name__": "__main__"}
            exec("def %s(*a, **k):\n    return %s\n" % (name, body), g)
            fns[(name, body)] = g[name]
        return fns[(name, body)]

    bad = []
    n = 300 if ctx.tier == "quick" else 3000
    for _ in range(n):
        rng = ctx.rng
        base = {"fn": ("f", "1"), "args": [rng.randrange(5), rng.choice(["a", "/ipykernel_12/x", "p/q", "l\n1"])],
                "kwargs": {"k": rng.randrange(3)}, "res": {"cores": rng.choice([1, 2])}}
        other = json.loads(json.dumps(base))
        kind = rng.choice(["same", "fn_body", "fn_name", "arg", "arg_str", "kwarg_val", "kwarg_name", "res", "kernel_digits", "after_kernel"])
        if kind == "fn_body":
            other["fn"] = ["f", "2"]
        elif kind == "fn_name":
            other["fn"] = ["g", "1"]
        elif kind == "arg":
            other["args"][0] = base["args"][0] + 1
        elif kind == "arg_str":
            other["args"][1] = base["args"][1] + "z"
        elif kind == "kwarg_val":
            other["kwargs"] = {"k": base["kwargs"]["k"] + 1}
        elif kind == "kwarg_name":
            other["kwargs"] = {"kk": base["kwargs"]["k"]}
        elif kind == "res":
            other["res"] = {"cores": base["res"]["cores"] + 1}
        elif kind == "kernel_digits":
            base["args"][1] = "/tmp/ipykernel_123/a.py"
            other["args"][1] = rng.choice(["/tmp/ipykernel_98765/a.py", "/tmp/ipykernel_987/a.py"])
        elif kind == "after_kernel":
            base["args"][1] = "/tmp/ipykernel_123/a/x.py"
            other["args"][1] = "/tmp/ipykernel_123/b/x.py"
        if kind == "same":
            other = base      # the same objects: pickle memoisation makes the bytes depend on object identity, and the
            #                   property quantifies over calls whose serialized form is identical
        ka, _ = serialize_funct_h5(mk(*base["fn"]), fn_args=base["args"], fn_kwargs=base["kwargs"], resource_dict=base["res"])
        kb, _ = serialize_funct_h5(mk(*other["fn"]), fn_args=other["args"], fn_kwargs=other["kwargs"], resource_dict=other["res"])
        want_equal = kind == "same"
        ctx.case({"pair": kind}, nontrivial=True)
        ctx.count("pair." + kind)
        if kind == "kernel_digits":
            # excluded from the property's quantifier: executorlib may or may not identify such calls (it does only
            # when the pickles agree after blanking; a different number of digits changes the pickled string length)
            ctx.count("pair.kernel_digits.equal" if ka == kb else "pair.kernel_digits.different")
            continue
        if (ka == kb) != want_equal:
            bad.append({"kind": kind, "a": base, "b": other, "key_a": ka, "key_b": kb})
    # ---- a sweep of short-lived functions of one name (closures over different constants): each is created, keyed and
    # dropped before the next exists, so object addresses repeat; different calls must still get different keys, the same
    # function built again the same key
    def make_scale(k):
        def scale(x):
            return x * k

        return scale

    import gc

    seen = {}
    for rnd in range(2):
        for k in range(25):
            fn = make_scale(k)
            key, _ = serialize_funct_h5(fn, fn_args=[10], fn_kwargs={}, resource_dict={})
            del fn
            gc.collect()
            ctx.case({"pair": "sweep", "k": k, "round": rnd}, nontrivial=True)
            ctx.count("pair.sweep")
            if rnd == 0:
                if key in seen.values():
                    other_k = [kk for kk, vv in seen.items() if vv == key][0]
                    bad.append({"kind": "sweep_collision", "a": {"closure_constant": other_k}, "b": {"closure_constant": k}, "key_a": key, "key_b": key})
                seen[k] = key
            elif seen.get(k) != key:
                bad.append({"kind": "sweep_unstable", "a": {"closure_constant": k}, "b": {"closure_constant": k}, "key_a": seen.get(k), "key_b": key})
    return bad


def resource_sensitivity(ctx: Ctx):
    """Calls differing only in resources over one cache directory, on real executors (the key the executor computes, not
    serialize_funct_h5 called by hand, is what decides)."""
    import os

    from .common import InfraError, finish_json_child, start_json_child

    o = finish_json_child(start_json_child(["vh.cache_res_runner"]), 400)
    if o is None:
        raise InfraError("cache resource runner produced no output")
    repo = os.environ.get("VERIF_REPO", "/repo")
    if not os.path.realpath(o["pin"]).startswith(os.path.realpath(repo) + os.sep):
        raise InfraError("cache resource runner imported executorlib from " + o["pin"])
    # mutable results (runner shared with C09): what the caller does to a result must not reach the value of a later call
    o2 = finish_json_child(start_json_child(["vh.cache_mut_runner"]), 400)
    if o2 is None:
        raise InfraError("mutable-result runner produced no output")
    for c in o2["cases"]:
        if c["submission"] != "executions":
            o["cases"].append({"case": "mutable result, %s, submission %s" % (c["mode"], c["submission"]), "got": c["got"], "want": c["want"], "ok": c["ok"]})
    bad = [c for c in o["cases"] if not c["ok"]]
    for c in o["cases"]:
        ctx.case({"cache_resources": c["case"]})
        ctx.count("cache_resource_cases")
    ctx.oblige("calls differing only in resources (per-call cwd, executor-level cwd, cores) over one cache directory each deliver "
               "their own value", not bad, "%d cases" % len(o["cases"]))
    if bad:
        ctx.violation({"kind": "cache_resources", "failing_input": True},
                      {"what": "a call received the stored result of a call with other resources (same function and arguments): the "
                               "cache key the executor computes does not separate them (theorem different_calls_different_keys assumes it does)",
                       "cases": bad[:4]})


def body(ctx: Ctx):
    from executorlib.standalone.serialize import _get_hash

    m = ctx.model
    replay = json.load(open(ctx.replay_file)) if ctx.replay_file else None
    extra = {}
    if replay is None or "bytes" in replay:
        # ---- (a) the regular expression against Key.blank
        n = 2500 if ctx.tier == "quick" else 25000
        cases = [bytes(replay["bytes"])] if replay else [b"/ipykernel_1/", b"/ipykernel_12/ipykernel_3/", b"a/ipykernel_1/x/ipykernel_2/y", b"/ipykernel_/", b"/ipykernel_1"] + [
            gen_bytes(ctx.rng) for _ in range(n)]
        model = m.ask_many([dict(op="key_blank", bytes=list(b)) for b in cases])
        diffs = []
        for b, mo in zip(cases, model):
            ctx.case({"bytes": b.decode("latin1")}, nontrivial=b"/ipykernel_" in b)
            ctx.count("bytes.with_marker" if b"/ipykernel_" in b else "bytes.no_marker")
            if bytes(mo) != b:
                ctx.count("bytes.blanked")
            if hashlib.md5(bytes(mo)).hexdigest() != _get_hash(b):
                diffs.append({"bytes": list(b), "model_blank": bytes(mo).decode("latin1")})
        ctx.oblige("correspondence: _get_hash(b) = md5(Key.blank b)", not diffs, f"{len(cases)} byte strings")
        if diffs:
            # property oracle: is something other than kernel-id digits removed?  search a colliding pair
            ctx.violation({"kind": "blank", "failing_input": True},
                          {"what": "_get_hash normalises the pickle differently from Key.blank (theorem blank_only_digits): more than the "
                                   "digits of a /ipykernel_<digits>/ segment is ignored, or not all of them", **diffs[0]})
    if replay is None:
        bad = key_pairs(ctx)
        k1, k2 = toplevel_pair()
        ctx.case({"pair": "toplevel_function_redefined"}, nontrivial=True)
        ctx.count("pair.toplevel_function_redefined")
        if k1 == k2:
            bad.append({"kind": "toplevel_function_redefined", "key_a": k1, "key_b": k2,
                        "a": "def _toplevel(x): return ('toplevel', 1, x)", "b": "def _toplevel(x): return ('toplevel', 2, x * 100)"})
        ctx.oblige("keys: identical calls share a key, calls differing in function / args / kwargs / resources do not "
                   "(kernel-id digits excepted)", not bad)
        if bad:
            ctx.violation({"kind": "key_pair", "failing_input": True},
                          {"what": "two different calls share a cache key, or identical calls do not", "pair": bad[0]})
    # ---- (c) engine C histories
    if replay is None or "scenario" in replay:
        n_h = 40 if ctx.tier == "quick" else 400
        scens = [dict(replay["scenario"])] if replay else [dict(s) for s in CORPUS] + [ce.gen_scenario(ctx.rng) for _ in range(n_h)]
        for k, s in enumerate(scens):
            s["_processes"] = 2 if (k % 3 == 2 and len(s["sessions"]) >= 2) else 1
        outs = ce.run_many(scens, jobs=8)
        diffs, fails, validated = [], [], 0
        for s, o in zip(scens, outs):
            j = ce.judge_confirmed(m, s, o)
            ctx.count("labels.lookCancelled", j["info"].get("lookCancelled", 0))
            ctx.case({"workers": s["workers"], "block": s["block"], "sessions": [len(x) for x in s["sessions"]]}, nontrivial=True)
            ctx.count("hist.block" if s["block"] else "hist.percall")
            ctx.count("hist.workers.%d" % s["workers"])
            ctx.count("hist.sessions.%d" % len(s["sessions"]))
            ctx.count("hist.processes.%d" % s["_processes"])
            rel = [x for x in j["oracles"] if x["oracle"] in ("cache_wrong_value", "cache_call_failed", "cache_key_collision", "cache_hang")]
            if rel:
                fails.append((s, j, rel))
            if j["diff"] is not None:
                diffs.append((s, j))
            else:
                validated += 1
        ctx.oblige("correspondence: every worker trace of every session is a run of Cache.step true (trace validation)", not diffs,
                   f"{validated} histories accepted")
        ctx.oblige("oracles: every future holds its own call's value; no key collision; no failure", not fails)
        if fails:
            s, j, rel = fails[0]
            ctx.violation({"kind": "cache_oracle", "oracles": sorted(set(x["oracle"] for x in rel)), "failing_input": True},
                          {"what": "a future served by the cache path does not hold the value of its own call", "scenario": {k: v for k, v in s.items() if not k.startswith("_")},
                           "oracles": rel, "difference": j["diff"]})
        elif diffs:
            s, j = diffs[0]
            ctx.violation({"kind": "correspondence", "failing_input": False},
                          {"what": "worker trace is not a run of the Lean model Cache (theorem cache_sound no longer shown to apply); no failing input found",
                           "correspondence": "engine C: vh.cache_engine.map_run + modeld cache_replay (Cache.step)",
                           "theorems_no_longer_applicable": "ExecModel/Props/C08Cache.lean", "scenario": {k: v for k, v in s.items() if not k.startswith("_")},
                           "difference": j["diff"]}, no_input=True)
        extra["traces_validated_against_impl"] = validated
    if replay is None or "cases" in replay:
        resource_sensitivity(ctx)
    extra.update({
        "rule": "(a) byte strings assembled from '/ipykernel_', '/', newline, digits and other pieces against the regex; (b) call pairs "
                "differing in exactly one of function body, function name, positional argument, keyword value, keyword name, resources, or "
                "only the kernel id; (c) session histories (1-3 sessions, 1-6 calls from a pool of 2-4 distinct calls so that identical calls "
                "recur, 1-3 workers, block and per-call, in one or two interpreter lifetimes, random delays after persistence operations) on "
                "real executors with the h5py stand-in; (d) calls differing only in resources (per-call cwd, executor-level cwd, cores 1 / 2 / 3 "
                "under the MPI stand-in) over one cache directory on real executors; non-trivial = contains the marker / any pair / any history",
        "ast_hashes": ast_hashes(ANCHORS),
        "trusted_base_extra": ["h5py stand-in (record file; a record is visible iff completely written), os.rename atomic, os.listdir",
                               "cloudpickle determinism and MD5 collision-freeness (hypotheses of the theorems, not axioms)"],
    })
    return extra


def main(argv=None):
    run_check("C08", body, argv)


if __name__ == "__main__":
    main()
