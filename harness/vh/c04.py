"""C04 — failure fidelity.  Lean: Props/C04.lean (transport_identity, failure_provenance, own_exception,
no_spurious_failure, dependent_gets_input_exception); tie: real executors raising generated
exceptions (class / args / attributes compared), engine B with failing calls inside DAG programs."""
from __future__ import annotations

import json
import os

from .common import Ctx, InfraError, run_check
from . import sysprop
from .c01 import rich_run

# failing calls: block allocation only with one worker here (two or more workers + a raised call is
# the known shutdown deadlock D19, decided under C05/C12)
PROFILE = {"fail": 0.3, "cancel": True, "cancel_p": 0.08, "deps": True, "multi_shutdown": False, "mid_shutdown": False,
           "gate_p": 0.4, "block_res_p": 0.0, "resolver_p": 0.8, "block_workers": [1], "modes": ["block", "percall", "percall"]}

CORPUS = [
    # D36 witness: the input fails while a shutdown is already draining the resolver (one block-allocation worker: its thread ends
    # with the failure, the inner executor is dead): the parked dependents still fail with the input's exception
    {"executor": {"backend": "local", "block_allocation": True, "max_workers": 1, "disable_dependencies": False},
     "calls": [{"base": 1, "fail": "value", "gate": 0, "args": [], "kwargs": {}}, {"base": 10, "args": [{"f": 0}], "kwargs": {}},
               {"base": 100, "args": [{"f": 1}], "kwargs": {}}],
     "script": [{"c": "submit"}, {"c": "submit"}, {"c": "submit"}, {"c": "wait_enter", "i": 0}, {"c": "shutdown", "wait": False, "cancel": False},
                {"c": "sleep", "ms": 150}, {"c": "release", "g": 0}],
     "gates": [0], "perturb": {}, "seed": 9, "timeout": 20, "settle": 6},
    # an input that fails with StopIteration (special inside generators and comprehensions): positional, keyword and list dependents
    # all fail with that very exception
    {"executor": {"backend": "local", "block_allocation": False, "max_cores": 2, "disable_dependencies": False},
     "calls": [{"base": 1, "fail": "stop", "gate": 0, "args": [], "kwargs": {}}, {"base": 10, "args": [{"f": 0}], "kwargs": {}},
               {"base": 20, "args": [], "kwargs": {"k": {"f": 0}}}, {"base": 30, "args": [{"l": [{"v": 1}, {"f": 0}]}], "kwargs": {}},
               {"base": 100, "args": [], "kwargs": {}}],
     "script": [{"c": "submit"}, {"c": "submit"}, {"c": "submit"}, {"c": "submit"}, {"c": "submit"}, {"c": "sleep", "ms": 20}, {"c": "release", "g": 0},
                {"c": "shutdown", "wait": True, "cancel": False}],
     "gates": [0], "perturb": {}, "seed": 8, "timeout": 20, "settle": 6},
    # D5 witness: the input fails after the dependent was parked; an unrelated call must still finish (per-call mode)
    {"executor": {"backend": "local", "block_allocation": False, "max_cores": 2, "disable_dependencies": False},
     "calls": [{"base": 1, "fail": "user", "gate": 0, "args": [], "kwargs": {}}, {"base": 10, "args": [{"f": 0}], "kwargs": {}},
               {"base": 100, "args": [], "kwargs": {}}, {"base": 1000, "args": [{"l": [{"f": 1}]}], "kwargs": {}}],
     "script": [{"c": "submit"}, {"c": "submit"}, {"c": "submit"}, {"c": "submit"}, {"c": "sleep", "ms": 20}, {"c": "release", "g": 0},
                {"c": "await", "i": 3}, {"c": "await", "i": 2}, {"c": "shutdown", "wait": False, "cancel": False}],
     "gates": [0], "perturb": {}, "seed": 1, "timeout": 20, "settle": 6},
    # the input has already failed when the dependent is submitted
    {"executor": {"backend": "local", "block_allocation": False, "disable_dependencies": False},
     "calls": [{"base": 1, "fail": "value", "args": [], "kwargs": {}}, {"base": 10, "args": [], "kwargs": {"k0": {"f": 0}}}],
     "script": [{"c": "submit"}, {"c": "await", "i": 0}, {"c": "submit"}, {"c": "await", "i": 1}, {"c": "shutdown", "wait": False, "cancel": False}],
     "gates": [], "perturb": {}, "seed": 2, "timeout": 20, "settle": 6},
]

REQUIRED = ["wFailA", "wFailB", "wFailC", "rFailDep", "rFailSet", "rScanFail", "wFinish"]


def body(ctx: Ctx):
    if ctx.replay_file:
        data = json.load(open(ctx.replay_file))
        if "rich_case" in data:
            r = rich_run(data["seed"], data["n"], "exc")
            bad = [c for c in r["cases"] if not c["ok"]]
            ctx.case({"replay": "exc"})
            ctx.oblige("replay reproduces no violation", not bad)
            if bad:
                ctx.violation({"kind": "replay", "failing_input": True}, {"rich_case": bad[0], "seed": data["seed"], "n": data["n"]})
            return {"rule": "replay"}
        return sysprop.replay(ctx, "C04", ctx.replay_file)
    n_exc = 60 if ctx.tier == "quick" else 600
    r = rich_run(ctx.seed, n_exc, "exc")
    repo = os.path.realpath(os.environ.get("VERIF_REPO", "/repo"))
    if not os.path.realpath(r["pin_parent"]).startswith(repo + os.sep) or any(
            not os.path.realpath(w).startswith(repo + os.sep) for w in r["pin_workers"]):
        raise InfraError("exception run did not import executorlib from /repo")
    bad = []
    for c in r["cases"]:
        ctx.case({"exc": c["kind"], "mode": c["mode"], "shape": c["shape"]}, nontrivial=True)
        ctx.count(c["kind"])
        ctx.count("excmode." + c["mode"])
        if not c["ok"]:
            bad.append(c)
    ctx.oblige("correspondence: exception at the future == exception raised in the worker (class, module, MRO names, args, attributes) "
               "= Exc.receive true; an unrelated call submitted before it finishes normally", not bad, f"{len(r['cases'])} raising calls")
    if bad:
        ctx.violation({"kind": "exception", "failing_input": True},
                      {"what": "the future's exception differs from the one raised (Exc.receive true = identity, theorem transport_identity), "
                               "or an unrelated call was disturbed", "rich_case": bad[0], "seed": ctx.seed, "n": n_exc, "all_bad": bad[:5]})
    n = 80 if ctx.tier == "quick" else 800
    res = sysprop.campaign(ctx, "C04", PROFILE, n, CORPUS, REQUIRED)
    res["raising_calls"] = len(r["cases"])
    res["rule"] = ("(a) real executors (per-call with/without resolver, block with one worker) running functions that raise generated "
                   "exceptions: builtins, stdlib classes of other modules (json, subprocess, zipfile, queue, concurrent.futures), classes "
                   "defined in the submitting script (module level, type()-built, with extra attributes), OSError family, nested exception "
                   "arguments; 0-3 args; only instances that survive a cloudpickle round trip; (b) engine B: programs of 1-6 calls with "
                   "failing calls at random positions of DAGs, failures before/after submission of dependents (gates), cancels")
    res["trusted_base_extra"] = sysprop.TRUST
    return res


def main(argv=None):
    run_check("C04", body, argv)


if __name__ == "__main__":
    main()
