"""python -m vh.pub_runner <cache_dir> <nbytes> <out.json>
A small session that publishes cache entries in both modes: an interactive executor with a cache directory (block allocation,
then one process per call) and a file-based executor (a producer and a dependent), one result of <nbytes> bytes.
Run under strace by the C14 check (publication discipline) and, with a large result, by its kill-at-first-sight search."""
import json
import os
import sys


def big(tag, nbytes):
    return bytes([tag % 251]) * nbytes


def small(x):
    return x + 1


def add(a, b):
    return a + b


def main():
    cache, nbytes, outp = sys.argv[1], int(sys.argv[2]), sys.argv[3]
    import executorlib
    from executorlib.cache.executor import FileExecutor
    from executorlib.cache.subprocess_spawner import execute_in_subprocess

    out = {"pin": executorlib.__file__, "values": {}}
    ci, cf = os.path.join(cache, "interactive"), os.path.join(cache, "file")
    for kw in (dict(block_allocation=True, max_workers=1), dict(block_allocation=False, max_cores=1)):
        e = executorlib.Executor(backend="local", cache_directory=ci, **kw)
        try:
            out["values"]["small_%s" % kw["block_allocation"]] = e.submit(small, 1 + int(kw["block_allocation"])).result(timeout=60)
            r = e.submit(big, 7 + int(kw["block_allocation"]), nbytes).result(timeout=60)
            out["values"]["big_%s" % kw["block_allocation"]] = [len(r), r == big(7 + int(kw["block_allocation"]), nbytes)]
        except BaseException as ex:  # noqa
            out["values"]["interactive_%s" % kw["block_allocation"]] = "EXC:" + type(ex).__name__
        finally:
            import threading

            t = threading.Thread(target=lambda: e.shutdown(wait=True), daemon=True)
            t.start()
            t.join(20)
    e = FileExecutor(cache_directory=cf, execute_function=execute_in_subprocess)
    try:
        a = e.submit(small, 10)
        b = e.submit(add, a, 5)
        out["values"]["file_dependent"] = b.result(timeout=40)
    except BaseException as ex:  # noqa  (a file mode that no longer works is for the other parts of the check to report)
        out["values"]["file_dependent"] = "EXC:" + type(ex).__name__
    json.dump(out, open(outp, "w"))
    os._exit(0)


if __name__ == "__main__":
    main()
