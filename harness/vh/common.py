"""Shared machinery of the /verif checks: pin check, Lean audit, model driver client, evidence,
known findings, replay files, exit codes.

Exit codes: 0 held (KNOWN-FINDING lines allowed), 1 VIOLATION, 2 infrastructure error (no
VIOLATION line is ever printed together with exit 2).
"""
from __future__ import annotations

import ast
import hashlib
import json
import os
import random
import re
import subprocess
import sys
import time
import traceback

VERIF = os.path.abspath(os.path.join(os.path.dirname(__file__), "..", ".."))
REPO = os.environ.get("VERIF_REPO", "/repo")
LEAN_DIR = os.path.join(VERIF, "lean")
MODELD = os.path.join(LEAN_DIR, ".lake", "build", "bin", "modeld")
ALLOWED_AXIOMS = {"propext", "Classical.choice", "Quot.sound"}
FORBIDDEN = re.compile(
    r"sorry|\badmit\b|^axiom |native_decide|bv_decide|implemented_by|unsafe |maxHeartbeats 0"
)


class InfraError(Exception):
    """Problem of the machinery, never a verdict about /repo."""


# --------------------------------------------------------------------------------------------
# pin check


def pin_check() -> dict:
    import executorlib

    path = os.path.realpath(executorlib.__file__)
    if not path.startswith(os.path.realpath(REPO) + os.sep):
        raise InfraError(f"executorlib imported from {path}, not from {REPO}")
    return {"executorlib_file": path}


def ast_hashes(spec: dict) -> dict:
    """spec: {relative file: [function or Class.method names]} -> {name: sha1 of ast dump}."""
    out = {}
    for rel, names in spec.items():
        p = os.path.join(REPO, rel)
        try:
            tree = ast.parse(open(p).read())
        except Exception as e:  # noqa
            out[rel] = f"unparsable: {e}"
            continue
        found = {}
        for node in ast.walk(tree):
            if isinstance(node, (ast.FunctionDef, ast.ClassDef)):
                found.setdefault(node.name, node)
        for n in names:
            node = found.get(n)
            out[f"{rel}::{n}"] = (
                hashlib.sha1(ast.dump(node).encode()).hexdigest()[:16] if node is not None else "missing"
            )
    return out


# --------------------------------------------------------------------------------------------
# Lean audit


def _strip_comments(src: str) -> str:
    # remove /- ... -/ (nested not needed for our files) and -- ... comments
    out = []
    i, depth, n = 0, 0, len(src)
    while i < n:
        if src.startswith("/-", i):
            depth += 1
            i += 2
        elif depth and src.startswith("-/", i):
            depth -= 1
            i += 2
        elif depth:
            if src[i] == "\n":
                out.append("\n")
            i += 1
        elif src.startswith("--", i):
            while i < n and src[i] != "\n":
                i += 1
        else:
            out.append(src[i])
            i += 1
    return "".join(out)


def lean_files() -> list:
    res = []
    for root, dirs, files in os.walk(LEAN_DIR):
        dirs[:] = [d for d in dirs if d not in (".lake",)]
        for f in files:
            if f.endswith(".lean") and not f.startswith("Audit"):
                res.append(os.path.join(root, f))
    return sorted(res)


def theorems_of(prop_file: str) -> list:
    """Fully qualified names of the theorems declared in a Props file."""
    src = _strip_comments(open(prop_file).read())
    ns = []
    names = []
    for line in src.splitlines():
        m = re.match(r"\s*namespace\s+(\S+)", line)
        if m:
            ns.append(m.group(1))
            continue
        m = re.match(r"\s*end\s+(\S+)", line)
        if m and ns and ns[-1] == m.group(1):
            ns.pop()
            continue
        m = re.match(r"\s*theorem\s+(\S+)", line)   # private helpers are covered through the public theorems that use them
        if m:
            names.append(".".join(ns + [m.group(1)]))
    return names


def lean_audit(prop_id: str, tier: str) -> dict:
    """Build, forbidden-token scan, #print axioms for every theorem of Props/<prop>.lean.
    Raises InfraError when the Lean development itself is broken."""
    t0 = time.time()
    env = dict(os.environ)
    r = subprocess.run(["lake", "build"], cwd=LEAN_DIR, capture_output=True, text=True, env=env)
    if r.returncode != 0:
        raise InfraError("lake build failed:\n" + (r.stdout + r.stderr)[-3000:])
    hits = []
    for f in lean_files():
        for ln, line in enumerate(_strip_comments(open(f).read()).splitlines(), 1):
            if FORBIDDEN.search(line):
                hits.append(f"{os.path.relpath(f, LEAN_DIR)}:{ln}: {line.strip()}")
    if hits:
        raise InfraError("forbidden tokens in Lean sources: " + "; ".join(hits))
    import glob

    prop_files = sorted(glob.glob(os.path.join(LEAN_DIR, "ExecModel", "Props", f"{prop_id}*.lean")))
    if not prop_files:
        raise InfraError(f"no theorem file Props/{prop_id}*.lean")
    thms = []
    for pf in prop_files:
        thms += theorems_of(pf)
    if not thms:
        raise InfraError(f"no theorems in {prop_files}")
    mods = ["ExecModel.Props." + os.path.basename(pf)[:-5] for pf in prop_files]
    audit_src = "".join(f"import {m}\n" for m in mods) + "".join(f"#print axioms {t}\n" for t in thms)
    audit_dir = os.path.join(LEAN_DIR, ".lake", "audit")
    os.makedirs(audit_dir, exist_ok=True)
    audit_path = os.path.join(audit_dir, f"Audit_{prop_id}.lean")
    with open(audit_path, "w") as fh:
        fh.write(audit_src)
    r = subprocess.run(["lake", "env", "lean", audit_path], cwd=LEAN_DIR, capture_output=True, text=True)
    if r.returncode != 0:
        raise InfraError("axiom audit failed:\n" + (r.stdout + r.stderr)[-3000:])
    axioms = {}
    cur = None
    text = r.stdout.replace("\n  ", " ")
    for m in re.finditer(r"'([^']+)' (depends on axioms: \[([^\]]*)\]|does not depend on any axioms)", text):
        name = m.group(1)
        ax = [a.strip() for a in (m.group(3) or "").split(",") if a.strip()]
        axioms[name] = ax
    missing = [t for t in thms if t not in axioms]
    if missing:
        raise InfraError(f"axiom audit: no answer for {missing}; output: {r.stdout[-2000:]}")
    badax = {t: a for t, a in axioms.items() if not set(a) <= ALLOWED_AXIOMS}
    if badax:
        raise InfraError(f"theorems depend on disallowed axioms: {badax}")
    res = {"theorems": thms, "axioms": axioms, "audit_s": round(time.time() - t0, 2)}
    if tier == "thorough":
        mods = ["ExecModel.Basic"] + mods
        r = subprocess.run(["lake", "env", "leanchecker"] + mods, cwd=LEAN_DIR, capture_output=True, text=True)
        res["leanchecker"] = {"modules": mods, "rc": r.returncode, "tail": (r.stdout + r.stderr)[-400:]}
        if r.returncode != 0:
            raise InfraError("leanchecker rejected: " + (r.stdout + r.stderr)[-2000:])
    return res


# --------------------------------------------------------------------------------------------
# model driver


class Model:
    def __init__(self):
        if not os.path.exists(MODELD):
            raise InfraError(f"{MODELD} missing (run setup_cmd)")
        self.p = subprocess.Popen([MODELD], stdin=subprocess.PIPE, stdout=subprocess.PIPE, text=True, bufsize=1)
        self.calls = 0

    def ask(self, op: str, **kw):
        kw["op"] = op
        self.p.stdin.write(json.dumps(kw) + "\n")
        self.p.stdin.flush()
        line = self.p.stdout.readline()
        if not line:
            raise InfraError(f"modeld died on {kw}")
        self.calls += 1
        res = json.loads(line)
        if isinstance(res, dict) and res.get("error") == "bad-op":
            raise InfraError(f"modeld rejected {kw}: {res}")
        return res

    def ask_many(self, reqs: list) -> list:
        """Pipeline a batch (writer thread to avoid pipe deadlock)."""
        import threading

        def w():
            for r in reqs:
                self.p.stdin.write(json.dumps(r) + "\n")
            self.p.stdin.flush()

        th = threading.Thread(target=w)
        th.start()
        out = []
        for r in reqs:
            line = self.p.stdout.readline()
            if not line:
                raise InfraError("modeld died in batch")
            res = json.loads(line)
            if isinstance(res, dict) and res.get("error") == "bad-op":
                raise InfraError(f"modeld rejected {r}: {res}")
            out.append(res)
        th.join()
        self.calls += len(reqs)
        return out

    def close(self):
        try:
            self.p.stdin.close()
            self.p.wait(timeout=5)
        except Exception:  # noqa
            self.p.kill()


# --------------------------------------------------------------------------------------------
# check context


class Ctx:
    def __init__(self, prop_id: str, tier: str, seed: int):
        self.prop = prop_id
        self.tier = tier
        self.seed = seed
        self.rng = random.Random(f"{prop_id}:{seed}")
        self.t0 = time.time()
        self.violations = []  # (signature dict, replay payload, no_input_found)
        self.known_hits = []
        self.coverage = {}
        self.obligations = []  # (name, ok, detail)
        self.assumptions = []
        self.samples = []
        self.evaluations = 0
        self._distinct = set()
        self.distribution = {}
        self.model = None
        self.known = load_known(prop_id)

    # --- bookkeeping
    def count(self, key: str, n: int = 1):
        self.distribution[key] = self.distribution.get(key, 0) + n

    def case(self, case, nontrivial: bool = True):
        self.evaluations += 1
        if nontrivial:
            self._distinct.add(hashlib.sha1(json.dumps(case, sort_keys=True, default=str).encode()).hexdigest())
        if len(self.samples) < 5:
            self.samples.append(case)

    def oblige(self, name: str, ok: bool, detail: str = ""):
        self.obligations.append((name, bool(ok), detail))

    # --- violations
    def violation(self, signature: dict, replay: dict, no_input: bool = False):
        """Record a violation unless it matches a listed known finding."""
        for k in self.known:
            if k.get("status") == "known" and _sig_match(k.get("signature", {}), signature):
                if k["id"] not in [h["id"] for h in self.known_hits]:
                    self.known_hits.append(k)
                return False
        self.violations.append((signature, replay, no_input))
        return True


def _sig_match(pattern: dict, sig: dict) -> bool:
    return all(sig.get(k) == v for k, v in pattern.items()) and len(pattern) > 0


def load_known(prop_id: str) -> list:
    p = os.path.join(VERIF, "known_findings.json")
    if not os.path.exists(p):
        return []
    data = json.load(open(p))
    return [e for e in data.get("findings", []) if e.get("property") == prop_id]


def write_replay(prop_id: str, name: str, payload: dict) -> str:
    d = os.path.join(os.environ.get("VERIF_SCRATCH_OUT") or os.path.join(VERIF, "out"), "replays", prop_id)
    os.makedirs(d, exist_ok=True)
    p = os.path.join(d, name + ".json")
    with open(p, "w") as fh:
        json.dump(payload, fh, indent=1, default=str)
    return p


def write_evidence(ctx: Ctx, audit: dict, extra: dict, status: str):
    evdir = os.path.join(os.environ["VERIF_SCRATCH_OUT"], "evidence") if os.environ.get("VERIF_SCRATCH_OUT") else os.path.join(VERIF, "evidence")
    os.makedirs(evdir, exist_ok=True)
    obligations = len(ctx.obligations)
    discharged = sum(1 for o in ctx.obligations if o[1])
    cov = {
        "obligations": max(obligations, 1),
        "discharged": discharged,
        "obligation_list": [{"name": n, "ok": ok, "detail": d} for n, ok, d in ctx.obligations],
        "checker_cmd": "cd lean && lake build && lake env lean .lake/audit/Audit_%s.lean  (#print axioms of every theorem in ExecModel/Props/%s.lean)"
        % (ctx.prop, ctx.prop),
        "trusted_base": [
            "Lean 4.33.0 kernel; axioms at most propext, Classical.choice, Quot.sound (audited by #print axioms on this run)",
            "no native_decide / bv_decide / sorry / own axioms (source scan on this run)",
            "statements in lean/ExecModel/Props/%s.lean and the SPEC definitions they refer to" % ctx.prop,
            "hand-written model tied to /repo by the differential correspondence harness in harness/vh (sampled, not exhaustive)",
        ]
        + extra.pop("trusted_base_extra", []),
        "evaluations": ctx.evaluations,
        "distinct_nontrivial": len(ctx._distinct),
        "rule": extra.pop("rule", ""),
        "samples": ctx.samples[:5] if ctx.samples else [{"note": "no case generated"}],
        "input_distribution": ctx.distribution,
        "lean_audit": audit,
        "status": status,
        "model_driver_calls": ctx.model.calls if ctx.model else 0,
    }
    cov.update(extra)
    ev = {
        "property_id": ctx.prop,
        "tier": ctx.tier,
        "seed": ctx.seed,
        "level": "proof",
        "coverage": cov,
        "assumptions": ctx.assumptions,
        "wall_s": round(time.time() - ctx.t0, 2),
        "violations": len(ctx.violations),
        "known_findings_reproduced": [k["id"] for k in ctx.known_hits],
    }
    with open(os.path.join(evdir, f"{ctx.prop}.json"), "w") as fh:
        json.dump(ev, fh, indent=1, default=str)


def run_check(prop_id: str, body, argv=None):
    """body(ctx) -> dict of extra coverage keys.  Handles audit, evidence, exit codes."""
    import argparse

    ap = argparse.ArgumentParser()
    ap.add_argument("--tier", default=os.environ.get("VERIF_TIER", "quick"))
    ap.add_argument("--replay", default=None)
    args = ap.parse_args(argv)
    tier = args.tier if args.tier in ("quick", "thorough") else "quick"
    try:
        seed = int(os.environ.get("VERIF_SEED", "0"))
    except ValueError:
        seed = 0
    ctx = Ctx(prop_id, tier, seed)
    ctx.replay_file = args.replay
    audit, extra, status = {}, {}, "error"
    code = 2

    def _budget():
        # a check never runs for ever: past its time budget it is an infrastructure error (exit 2), not a verdict
        import threading

        limit = float(os.environ.get("VERIF_CHECK_BUDGET_S", "2400" if tier == "quick" else "14400"))

        def fire():
            print(f"ERROR property={prop_id} infrastructure: time budget of {limit:.0f} s exceeded")
            print(f"[{prop_id}] infra-error: time budget exceeded; evaluations={ctx.evaluations} wall={time.time() - ctx.t0:.1f}s", flush=True)
            try:
                kill_descendants()
            finally:
                os._exit(2)

        t = threading.Timer(limit, fire)
        t.daemon = True
        t.start()

    _budget()
    try:
        pin = pin_check()
        audit = lean_audit(prop_id, tier)
        for t in audit["theorems"]:
            ctx.oblige("theorem " + t, True, "axioms: " + ",".join(audit["axioms"][t]))
        ctx.model = Model()
        extra = body(ctx) or {}
        extra["pin"] = pin
        for k in ctx.known_hits:
            print(f"KNOWN-FINDING: property={prop_id} {k['id']}: {k['what']}")
        def report_violations():
            ctx.violations.sort(key=lambda v: bool(v[2]))  # failing inputs first
            for i, (sig, replay, no_input) in enumerate(ctx.violations[:3]):
                name = f"{tier}-seed{seed}-{i}"
                replay = dict(replay)
                replay["signature"] = sig
                replay["property"] = prop_id
                path = write_replay(prop_id, name, replay)
                print(
                    f"VIOLATION property={prop_id} replay={path}"
                    + (" no-failing-input-found" if no_input else "")
                )

        if ctx.violations:
            status = "violation"
            code = 1
            report_violations()
        else:
            bad = [o for o in ctx.obligations if not o[1]]
            if bad:
                # an undischarged obligation that produced no violation record is a harness bug
                raise InfraError(f"undischarged obligations without violation: {bad[:3]}")
            status = "held"
            code = 0
    except InfraError as e:
        print(f"ERROR property={prop_id} infrastructure: {e}", file=sys.stderr)
        status = "infra-error: " + str(e)[:500]
        code = 2
        if any(not v[2] for v in ctx.violations):
            # a failing input on the real code was already found before a later part of the check could not run: it stands
            ctx.violations = [v for v in ctx.violations if not v[2]]
            for k in ctx.known_hits:
                print(f"KNOWN-FINDING: property={prop_id} {k['id']}: {k['what']}")
            report_violations()
            status = "violation (a later part of the check did not run: " + str(e)[:300] + ")"
            code = 1
    except Exception as e:  # noqa
        traceback.print_exc()
        status = "infra-error: " + repr(e)[:500]
        print(f"ERROR property={prop_id} harness exception: {e!r}", file=sys.stderr)
        code = 2
    finally:
        try:
            if code == 2 and not ctx.obligations:
                ctx.oblige("harness ran", False, status)
            write_evidence(ctx, audit, extra, status)
        except Exception:  # noqa
            traceback.print_exc()
        if ctx.model:
            ctx.model.close()
    print(f"[{prop_id}] {status}; evaluations={ctx.evaluations} wall={time.time()-ctx.t0:.1f}s")
    # executors a broken library left behind keep non-daemon threads alive: leave without waiting for them
    sys.stdout.flush()
    sys.stderr.flush()
    try:
        kill_descendants()
    except Exception:  # noqa
        pass
    os._exit(code)


# --------------------------------------------------------------------------------------------
# process helpers (engine B/C)


def descendants(pid: int | None = None) -> list:
    """[(pid, cmdline, state)] of all live descendants of pid (default: this process)."""
    pid = pid or os.getpid()
    children = {}
    info = {}
    for d in os.listdir("/proc"):
        if not d.isdigit():
            continue
        try:
            with open(f"/proc/{d}/stat") as fh:
                st = fh.read()
            rp = st.rindex(")")
            fields = st[rp + 2 :].split()
            state, ppid = fields[0], int(fields[1])
            with open(f"/proc/{d}/cmdline", "rb") as fh:
                cmd = fh.read().replace(b"\0", b" ").decode(errors="replace").strip()
        except Exception:  # noqa
            continue
        children.setdefault(ppid, []).append(int(d))
        info[int(d)] = (cmd, state)
    out, stack = [], [pid]
    while stack:
        p = stack.pop()
        for c in children.get(p, []):
            out.append((c, info[c][0], info[c][1]))
            stack.append(c)
    return out


def kill_descendants(match: str | None = None):
    import signal

    for p, cmd, _ in descendants():
        if match is None or match in cmd:
            try:
                os.kill(p, signal.SIGKILL)
            except Exception:  # noqa
                pass


def call_with_timeout(fn, timeout: float):
    """Run fn() in a daemon thread; returns ('ok', value) | ('exc', exception) | ('timeout', None)."""
    import threading

    box = {}

    def run():
        try:
            box["v"] = ("ok", fn())
        except BaseException as e:  # noqa
            box["v"] = ("exc", e)

    th = threading.Thread(target=run, daemon=True)
    th.start()
    th.join(timeout)
    return box.get("v", ("timeout", None))


class OsProxy:
    """Stands in for the `os` module inside executorlib/standalone/interactive/spawner.py while launches are
    recorded instead of executed: `makedirs` (fix 24eb13b creates the working directory) is recorded, not done."""

    def __init__(self):
        self.made = []

    def __getattr__(self, name):
        return getattr(os, name)

    def makedirs(self, path, *a, **kw):
        self.made.append(path)


def start_json_child(module_args: list, extra_env: dict | None = None):
    """Start `python -m <module> args…` in its own session with PYTHONPATH = repo, harness, stand-ins; stdout goes to a FILE
    (worker processes leaked by the child would keep a pipe open and block the reader).  -> handle for finish_json_child."""
    import tempfile

    env = dict(os.environ)
    repo = os.environ.get("VERIF_REPO", "/repo")
    env["PYTHONPATH"] = os.pathsep.join([repo, os.path.join(VERIF, "harness"), os.path.join(VERIF, "harness", "standins")])
    env["PATH"] = os.path.join(VERIF, "harness", "standins", "bin") + os.pathsep + env.get("PATH", "")
    env.update(extra_env or {})
    fd, path = tempfile.mkstemp(prefix="vh_child_", suffix=".out")
    fh = os.fdopen(fd, "w")
    pr = subprocess.Popen([sys.executable, "-m"] + list(module_args), env=env, stdout=fh, stderr=subprocess.DEVNULL,
                          stdin=subprocess.DEVNULL, start_new_session=True)
    fh.close()
    return pr, path


def finish_json_child(handle, timeout: float):
    """Wait for the child (not for its descendants), kill its process group, return the last JSON line it printed or None."""
    pr, path = handle
    try:
        pr.wait(timeout=timeout)
    except subprocess.TimeoutExpired:
        pass
    try:
        os.killpg(pr.pid, 9)
    except Exception:  # noqa
        pass
    try:
        lines = [l for l in open(path).read().splitlines() if l.startswith("{")]
    finally:
        try:
            os.unlink(path)
        except OSError:
            pass
    return json.loads(lines[-1]) if lines else None
