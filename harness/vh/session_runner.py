"""python -m vh.session_runner <seed> <mode block|step> <rounds>  -> one JSON line.
A *session* on ONE real executor with the dependency resolver: a pool of Python list objects holding futures, plain values and
other pool lists (aliasing) is handed to consumer calls again and again; between two uses a list is extended, an element is
replaced, the list is emptied and refilled, or dropped (so that CPython recycles its address).  A list is only changed while no
consumer that received it is outstanding, so every consumer's input is the snapshot taken at its submission.  The consumer
returns exactly what it received.  The parent compares with Args.subst of the snapshot alone (the model has no state between
calls: theorem subst_determined)."""
import gc
import json
import random
import sys
import time
from concurrent.futures import Future


def value(x, delay):
    import time as _t

    _t.sleep(delay)
    return x


def echo(*args, **kwargs):
    return [list(args), kwargs]


def snapshot(obj, futs):
    if isinstance(obj, Future):
        return {"f": futs.index(obj)}
    if isinstance(obj, list):
        return {"l": [snapshot(x, futs) for x in obj]}
    return {"v": obj}


def canon(v):
    if isinstance(v, list):
        return {"l": [canon(x) for x in v]}
    return {"v": v}


def uses(obj, target):
    if obj is target:
        return True
    if isinstance(obj, list):
        return any(uses(x, target) for x in obj)
    return False


def main():
    seed, mode, rounds = int(sys.argv[1]), sys.argv[2], int(sys.argv[3])
    rng = random.Random(seed)
    import executorlib

    kw = dict(backend="local", disable_dependencies=False)
    if mode == "block":
        kw.update(block_allocation=True, max_workers=rng.choice([1, 2, 3]))
    else:
        kw.update(block_allocation=False, max_cores=rng.choice([2, 3]))
    out = {"pin": executorlib.__file__, "mode": mode, "executor": {k: v for k, v in kw.items()}, "consumers": [], "log": [], "ids_recycled": 0}
    exe = executorlib.Executor(**kw)
    futs, vals = [], []           # producer futures and the values they yield
    pool = []                     # live list objects
    consumers = []                # [future, record]
    dead_ids = set()
    counter = [0]

    def producer():
        counter[0] += 1
        x = 100 + counter[0]
        f = exe.submit(value, x, rng.choice([0.0, 0.05, 0.12, 0.2]))
        futs.append(f)
        vals.append(x)
        return f

    def leaf(allow_list=True):
        r = rng.random()
        if r < 0.55:
            return producer()
        if r < 0.7 and futs:
            return rng.choice(futs)          # a future used before (probably done already)
        if r < 0.82 and pool and allow_list:
            return rng.choice(pool)          # aliasing: a pool list inside another list
        return rng.randrange(0, 50)

    def quiesce(target):
        for f, rec in consumers:
            if rec.get("received") is None and any(uses(a, target) for a in rec["_objs"]):
                try:
                    rec["received"] = f.result(timeout=30)
                except BaseException as e:  # noqa
                    rec["received"] = {"exception": type(e).__name__ + ": " + str(e)[:200]}

    try:
        for r in range(rounds):
            act = rng.random()
            if act < 0.25 or not pool:
                lst = [leaf() for _ in range(rng.randrange(1, 4))]
                if id(lst) in dead_ids:
                    out["ids_recycled"] += 1
                pool.append(lst)
                out["log"].append("new")
            elif act < 0.5:
                lst = rng.choice(pool)
                for top in [p for p in pool if uses(p, lst)]:
                    quiesce(top)
                quiesce(lst)
                m = rng.random()
                if m < 0.4:
                    lst.append(leaf(allow_list=False))
                    out["log"].append("append")
                elif m < 0.7 and lst:
                    lst[rng.randrange(len(lst))] = leaf(allow_list=False)
                    out["log"].append("replace")
                elif m < 0.85 and lst:
                    lst.pop(rng.randrange(len(lst)))
                    out["log"].append("pop")
                else:
                    lst[:] = [leaf(allow_list=False) for _ in range(rng.randrange(1, 3))]
                    out["log"].append("refill")
            elif act < 0.6 and len(pool) > 1:
                lst = pool.pop(rng.randrange(len(pool)))
                if not any(uses(p, lst) for p in pool) and not any(rec.get("received") is None and any(uses(a, lst) for a in rec["_objs"]) for _, rec in consumers):
                    dead_ids.add(id(lst))
                for _, rec in consumers:
                    if rec.get("received") is not None:
                        rec["_objs"] = []
                del lst
                gc.collect()
                out["log"].append("drop")
                continue
            # submit a consumer (every round that did not drop)
            def arg():
                q = rng.random()
                if q < 0.65 and pool:
                    return rng.choice(pool)
                if q < 0.8:
                    return producer()
                if q < 0.9:
                    fresh = [producer() for _ in range(rng.randrange(1, 3))]     # a short-lived list, dropped after the call
                    if id(fresh) in dead_ids:
                        out["ids_recycled"] += 1
                    dead_ids.add(id(fresh))
                    return fresh
                return rng.randrange(0, 50)

            args = [arg() for _ in range(rng.randrange(1, 3))]
            kwargs = {"k%d" % i: arg() for i in range(rng.randrange(0, 2))}
            rec = {"args": [snapshot(a, futs) for a in args], "kwargs": [[k, snapshot(v, futs)] for k, v in kwargs.items()],
                   "_objs": list(args) + list(kwargs.values()), "received": None, "round": r}
            f = exe.submit(echo, *args, **kwargs)
            consumers.append((f, rec))
            del args, kwargs
            if rng.random() < 0.3:
                time.sleep(rng.choice([0.01, 0.05, 0.15]))
        for f, rec in consumers:
            if rec["received"] is None:
                try:
                    rec["received"] = f.result(timeout=30)
                except BaseException as e:  # noqa
                    rec["received"] = {"exception": type(e).__name__ + ": " + str(e)[:200]}
    finally:
        import threading

        t = threading.Thread(target=lambda: exe.shutdown(wait=True), daemon=True)
        t.start()
        t.join(20)
        out["shutdown_returned"] = not t.is_alive()
    for f, rec in consumers:
        got = rec["received"]
        out["consumers"].append({"args": rec["args"], "kwargs": rec["kwargs"], "round": rec["round"],
                                 "received": ({"args": [canon(x) for x in got[0]], "kwargs": [[k, canon(v)] for k, v in got[1].items()]}
                                              if isinstance(got, list) else got)})
    out["vals"] = vals
    print(json.dumps(out), flush=True)
    import os

    os._exit(0)


if __name__ == "__main__":
    main()
