"""C03 — dependency resolution = sequential evaluation.  Lean: Props/C03.lean (traversal lemmas on
Args, not_before_inputs, seq_eval over Sys); tie: engine A on the two traversal functions, engine B
on DAG programs (trace validation, value and dependency-order oracles)."""
from __future__ import annotations

import os
from concurrent.futures import Future

from .common import Ctx, InfraError, run_check
from . import sysprop

PROFILE = {"fail": 0.0, "cancel": False, "deps": True, "multi_shutdown": False, "mid_shutdown": False, "resolver_p": 1.0,
           "gate_p": 0.55, "block_res_p": 0.0, "ncalls": [2, 3, 4, 4, 5, 6, 7], "dep_weights": [0, 1, 1, 2, 2, 3]}

CORPUS = [
    # diamond with the shared input finishing between submission and poll (gate), nested list + kwarg positions
    {"executor": {"backend": "local", "block_allocation": True, "max_workers": 2, "disable_dependencies": False},
     "calls": [{"base": 1, "gate": 0, "args": [], "kwargs": {}},
               {"base": 10, "args": [{"f": 0}], "kwargs": {}},
               {"base": 100, "args": [{"l": [{"v": 1}, {"l": [{"f": 0}]}]}], "kwargs": {"k0": {"f": 0}}},
               {"base": 1000, "args": [{"f": 1}, {"l": [{"f": 2}, {"v": 4}]}], "kwargs": {}}],
     "script": [{"c": "submit"}, {"c": "submit"}, {"c": "submit"}, {"c": "submit"}, {"c": "sleep", "ms": 20},
                {"c": "release", "g": 0}, {"c": "shutdown", "wait": True, "cancel": False}],
     "gates": [0], "perturb": {}, "seed": 1, "timeout": 20, "settle": 6},
    # future already done at submission (per-call mode underneath)
    {"executor": {"backend": "local", "block_allocation": False, "max_cores": 2, "disable_dependencies": False},
     "calls": [{"base": 1, "args": [{"v": 2}], "kwargs": {}}, {"base": 10, "args": [{"f": 0}, {"f": 0}], "kwargs": {}}],
     "script": [{"c": "submit"}, {"c": "await", "i": 0}, {"c": "submit"}, {"c": "shutdown", "wait": True, "cancel": False}],
     "gates": [], "perturb": {}, "seed": 2, "timeout": 20, "settle": 6},
]

CORPUS = CORPUS + sysprop.starvation_probes()

REQUIRED = ["rDecidePark", "rDecideReady", "rForward", "rScanFwd", "wSend", "wFinish"]


import collections

Point3 = collections.namedtuple("Point3", ["a", "b", "c"])


class TaggedList(list):
    """a subclass of list with an attribute: searched and resolved like a list, must stay what it is"""

    def __init__(self, *a, tag="t0"):
        super().__init__(*a)
        self.tag = tag


class Registry(dict):
    pass


CLASSES = {"list": list, "TaggedList": TaggedList, "tuple": tuple, "Point3": Point3, "dict": dict, "OrderedDict": collections.OrderedDict,
           "Registry": Registry}


def gen_tree(rng, futs, depth=0):
    """Random argument tree: ('v', x) | ('f', j) | ('l', [...], cls) | ('t', [...], cls) | ('d', {...}, cls); cls = Python class."""
    r = rng.random()
    if depth >= 3:
        r *= 0.5
    if r < 0.3:
        return ("v", rng.randrange(0, 100))
    if r < 0.5 and futs:
        return ("f", rng.randrange(len(futs)))
    if r < 0.75:
        return ("l", [gen_tree(rng, futs, depth + 1) for _ in range(rng.randrange(0, 4))], "TaggedList" if rng.random() < 0.2 else "list")
    if r < 0.88:
        if rng.random() < 0.25:
            return ("t", [gen_tree(rng, futs, depth + 1) for _ in range(3)], "Point3")
        return ("t", [gen_tree(rng, futs, depth + 1) for _ in range(rng.randrange(0, 3))], "tuple")
    return ("d", {"k%d" % i: gen_tree(rng, futs, depth + 1) for i in range(rng.randrange(0, 3))}, rng.choice(["dict", "dict", "OrderedDict", "Registry"]))


def build(tree, futs):
    k, x = tree[0], tree[1]
    if k == "v":
        return x
    if k == "f":
        return futs[x]
    if k == "l":
        return TaggedList([build(t, futs) for t in x], tag="t%d" % len(x)) if tree[2] == "TaggedList" else [build(t, futs) for t in x]
    if k == "t":
        return Point3(*[build(t, futs) for t in x]) if tree[2] == "Point3" else tuple(build(t, futs) for t in x)
    return CLASSES[tree[2]]((kk, build(t, futs)) for kk, t in x.items())


def _cls(d, name, plain):
    if name != plain:
        d["cls"] = name
    return d


def to_json(tree):
    k, x = tree[0], tree[1]
    if k in ("v", "f"):
        return {k: x}
    if k == "l":
        return _cls({"l": [to_json(t) for t in x]}, tree[2], "list")
    if k == "t":
        return _cls({"t": [to_json(t) for t in x]}, tree[2], "tuple")
    return _cls({"d": [[kk, to_json(t)] for kk, t in x.items()]}, tree[2], "dict")


def canon_val(v, futs):
    """Result of _update_futures_in_input rendered as a tree with remaining futures marked and the class of every container."""
    if isinstance(v, Future):
        return {"f": futs.index(v)}
    if isinstance(v, list):
        d = _cls({"l": [canon_val(x, futs) for x in v]}, type(v).__name__, "list")
        if isinstance(v, TaggedList) and getattr(v, "tag", None) != "t%d" % len(v):
            d["cls"] = "TaggedList without its attribute"
        return d
    if isinstance(v, tuple):
        return _cls({"t": [canon_val(x, futs) for x in v]}, type(v).__name__, "tuple")
    if isinstance(v, dict):
        return _cls({"d": [[k, canon_val(x, futs)] for k, x in v.items()]}, type(v).__name__, "dict")
    return {"v": v}


def traversal_part(ctx: Ctx):
    """Engine A: _get_future_objects_from_input and _update_futures_in_input against Args.futuresOf / Args.subst."""
    from executorlib.interactive.shared import _get_future_objects_from_input, _update_futures_in_input

    n = 1500 if ctx.tier == "quick" else 15000
    cases, reqs = [], []
    for _ in range(n):
        nf = ctx.rng.randrange(0, 5)
        done = [ctx.rng.random() < 0.6 for _ in range(nf)]
        args = [gen_tree(ctx.rng, list(range(nf))) for _ in range(ctx.rng.randrange(0, 4))]
        kwargs = {"a%d" % i: gen_tree(ctx.rng, list(range(nf))) for i in range(ctx.rng.randrange(0, 3))}
        cases.append((nf, done, args, kwargs))
        reqs.append({"op": "args_traverse", "args": [to_json(t) for t in args],
                     "kwargs": [[k, to_json(t)] for k, t in kwargs.items()], "done": done,
                     "vals": [1000 + j for j in range(nf)]})
    model = ctx.model.ask_many(reqs)
    diffs = []
    for (nf, done, args, kwargs), mo in zip(cases, model):
        futs = [Future() for _ in range(nf)]
        for j, f in enumerate(futs):
            if done[j]:
                f.set_result(1000 + j)
        a = tuple(build(t, futs) for t in args)
        kw = {k: build(t, futs) for k, t in kwargs.items()}
        flst, ready = _get_future_objects_from_input({"args": a, "kwargs": kw})
        impl = {"futures": [futs.index(f) for f in flst], "ready": bool(ready)}
        has_f = bool(flst)
        ctx.case({"args": reqs[len(diffs)]["args"][:1], "nf": nf}, nontrivial=has_f)
        ctx.count("traverse.with_futures" if has_f else "traverse.no_futures")
        ctx.count("traverse.ready" if ready else "traverse.not_ready")
        if impl != {"futures": mo["futures"], "ready": mo["ready"]}:
            diffs.append({"kind": "futuresOf", "args": [to_json(t) for t in args], "kwargs": [[k, to_json(t)] for k, t in kwargs.items()],
                          "done": done, "impl": impl, "model": mo})
            continue
        if ready or not flst:
            for f in futs:       # futures outside lists (in tuples/dicts) are not touched; make result() total
                if not f.done():
                    f.set_result(-1)
            a2, kw2 = _update_futures_in_input(args=a, kwargs=kw)
            impl2 = {"args": [canon_val(x, futs) for x in a2], "kwargs": [[k, canon_val(x, futs)] for k, x in kw2.items()]}
            if impl2 != mo["subst"]:
                diffs.append({"kind": "subst", "args": [to_json(t) for t in args], "impl": impl2, "model": mo["subst"]})
    ctx.oblige("correspondence: _get_future_objects_from_input = Args.futuresOf, _update_futures_in_input = Args.subst", not diffs,
               f"{n} argument trees")
    if diffs:
        d = diffs[0]
        # property oracle: does the implementation start a call before an input is done / leave a future unsubstituted in a list position?
        ctx.violation({"kind": "traversal", "failing_input": True},
                      {"what": "future discovery / substitution differs from the model (Args.futuresOf / Args.subst): a future in args, kwargs "
                               "or a nested list is either not waited for or not replaced", **d})
    return n


def session_part(ctx: Ctx, only=None):
    """Sessions on one real executor: list objects reused, changed between uses, aliased inside other lists, dropped and their
    addresses recycled.  Each consumer must receive Args.subst of ITS OWN snapshot (the model carries nothing from call to call)."""
    from .common import finish_json_child, start_json_child

    nsess = 6 if ctx.tier == "quick" else 40
    rounds = 22 if ctx.tier == "quick" else 40
    plans = [only] if only else [{"seed": ctx.rng.randrange(1 << 30), "mode": ("block" if i % 3 != 2 else "step"), "rounds": rounds} for i in range(nsess)]
    bad, nconsumers, recycled = [], 0, 0
    for k in range(0, len(plans), 6):
        batch = plans[k:k + 6]
        handles = [start_json_child(["vh.session_runner", str(p["seed"]), p["mode"], str(p["rounds"])]) for p in batch]
        for p, h in zip(batch, handles):
            out = finish_json_child(h, 240)
            if out is None:
                out = finish_json_child(start_json_child(["vh.session_runner", str(p["seed"]), p["mode"], str(p["rounds"])]), 600)   # alone, once more
            if out is None:
                raise InfraError("session runner produced no output for %r" % (p,))
            if not out["pin"].startswith(os.environ.get("VERIF_REPO", "/repo")):
                raise InfraError("session runner imported executorlib from " + out["pin"])
            recycled += out["ids_recycled"]
            reqs = [{"op": "args_traverse", "args": c["args"], "kwargs": c["kwargs"], "done": [True] * len(out["vals"]), "vals": out["vals"]}
                    for c in out["consumers"]]
            model = ctx.model.ask_many(reqs) if reqs else []
            for c, mo in zip(out["consumers"], model):
                nconsumers += 1
                shared = any("l" in a for a in c["args"]) or any("l" in v for _, v in c["kwargs"])
                ctx.case({"session": p, "round": c["round"]}, nontrivial=shared)
                ctx.count("session.consumer_with_list" if shared else "session.consumer_plain")
                if c["received"] != mo["subst"]:
                    bad.append({"session": p, "executor": out["executor"], "round": c["round"], "operations_of_session": out["log"],
                                "submitted": {"args": c["args"], "kwargs": c["kwargs"]}, "values_of_futures": out["vals"],
                                "received": c["received"], "model": mo["subst"]})
            for op in out["log"]:
                ctx.count("session.op." + op)
            if not out.get("shutdown_returned", True):
                ctx.count("session.shutdown_slow")
    ctx.count("session.list_ids_recycled", recycled)
    ctx.oblige("correspondence over sessions: every consumer of every session received Args.subst of its own snapshot (lists reused, "
               "changed between uses, aliased, dropped and re-allocated)", not bad, f"{len(plans)} sessions, {nconsumers} consumers")
    if bad:
        ctx.violation({"kind": "session_subst", "failing_input": True},
                      {"what": "a call received something else than the results of its own input futures in their positions (Args.subst of the "
                               "arguments as submitted; theorems subst_determined, receives_input_values): state carried between calls of one "
                               "resolver", "kind": "session", **bad[0]})
    return {"sessions": len(plans), "consumers": nconsumers}


def body(ctx: Ctx):
    if ctx.replay_file:
        import json

        data = json.load(open(ctx.replay_file))
        if data.get("kind") == "session":
            return session_part(ctx, only=data["session"])
        return sysprop.replay(ctx, "C03", ctx.replay_file)
    ntrees = traversal_part(ctx)
    sess = session_part(ctx)
    n = 80 if ctx.tier == "quick" else 800
    res = sysprop.campaign(ctx, "C03", PROFILE, n, CORPUS, REQUIRED)
    res["argument_trees"] = ntrees
    res["sessions"] = sess
    res["rule"] = ("(a) random argument trees (futures at top level, in kwargs values, in nested lists to depth 3, and inside tuples/dicts where "
                   "executorlib does not look) against Args.futuresOf/subst; (b) engine B DAG programs of 2-7 calls (chains, fan-out, fan-in, "
                   "diamonds, shared inputs, inputs done before submission), gates steering completion relative to submission and polling, "
                   "block 1-3 workers and per-call underneath; oracles: values = sequential evaluation, exit(input) < enter(dependent); (c) sessions "
                   "on one real executor in which list objects are handed to several calls, changed in between (append / replace / pop / refill), "
                   "aliased inside other lists, dropped and re-allocated: every consumer receives Args.subst of its own snapshot")
    res["trusted_base_extra"] = sysprop.TRUST
    return res


def main(argv=None):
    run_check("C03", body, argv)


if __name__ == "__main__":
    main()
