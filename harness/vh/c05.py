"""C05 — shutdown() returns, is repeatable, closes the executor.  Lean: Props/C05.lean
(shutdown_returns, shutdown_again_is_noop, submit_after_shutdown_raises, shutdown_raises_nothing;
proved deadlock of the code as it is for a raising call on a two-worker block executor, finding
D19).  Tie: engine B with histories of 0-3 shutdown calls of all four flag combinations, cancels,
gated running calls and (in part of the runs) raising calls."""
from __future__ import annotations

from .common import Ctx, run_check
from . import sysprop
from .c02 import invariants_on_traces

PROFILE = {"fail": 0.12, "cancel": True, "cancel_p": 0.15, "deps": True, "multi_shutdown": True, "mid_shutdown": True,
           "mid_shutdown_p": 0.15, "gate_p": 0.4, "block_res_p": 0.03, "no_final_shutdown_p": 0.05, "timeout": 10}

CORPUS = [
    # D3 witness (fixed): second shutdown(cancel_futures=True)
    {"executor": {"backend": "local", "block_allocation": True, "max_workers": 1, "disable_dependencies": False},
     "calls": [{"base": 1, "args": [], "kwargs": {}}, {"base": 2, "args": [], "kwargs": {}}],
     "script": [{"c": "submit"}, {"c": "shutdown", "wait": True, "cancel": True}, {"c": "shutdown", "wait": True, "cancel": True},
                {"c": "shutdown", "wait": False, "cancel": True}, {"c": "submit"}],
     "gates": [], "perturb": {}, "seed": 1, "timeout": 10, "settle": 6},
    # D27 witness (fixed): a parked call whose input is stuck behind a failed call on a one-worker block executor
    {"executor": {"backend": "local", "block_allocation": True, "max_workers": 1, "disable_dependencies": False},
     "calls": [{"base": 1, "gate": 0, "args": [], "kwargs": {}}, {"base": 11, "fail": "user", "args": [{"f": 0}], "kwargs": {}},
               {"base": 102, "args": [{"f": 0}], "kwargs": {}}, {"base": 7, "args": [{"f": 2}], "kwargs": {}}],
     "script": [{"c": "submit"}, {"c": "submit"}, {"c": "submit"}, {"c": "submit"}, {"c": "release", "g": 0}, {"c": "sleep", "ms": 20},
                {"c": "shutdown", "wait": True, "cancel": False}],
     "gates": [0], "perturb": {}, "seed": 2, "timeout": 10, "settle": 6},
]

REQUIRED = ["mSdBegin", "sdDrainGet", "sdDrainCancel", "sdDrainEmpty", "sdPutStop", "sdJoinThread", "sdJoinQueue", "sdFinish",
            "mSubmitRaise", "wProcStop", "wJoinExit", "rBeginSd", "dJoinThread"]


def fault_scenarios(ctx: Ctx, only=None):
    """shutdown after an idle worker process died (SIGKILL from outside): every (wait, cancel_futures) form returns, is repeatable,
    closes the executor, leaves no thread and no process.  Sys has no process faults; the exchange on one worker connection with a
    process that may die is the finite model Lts/Conn.lean (theorems dead_before_poll_returns, no_fault_returns,
    blocks_only_in_recv_of_dead_worker): the observed outcome must be one Conn.outcomes allows."""
    import os

    from .common import InfraError, finish_json_child, start_json_child

    plans = [only] if only else [dict(workers=nw, wait=w, cancel=c, resolver=r, kill_all=ka)
                                 for nw, w, c, r, ka in ((1, 1, 0, 0, 0), (2, 1, 1, 0, 0), (1, 0, 0, 0, 0), (1, 1, 0, 1, 0), (2, 1, 0, 1, 1), (3, 0, 1, 0, 1))]
    if ctx.tier != "quick" and not only:
        plans += [dict(workers=nw, wait=w, cancel=c, resolver=r, kill_all=ka) for nw in (1, 2, 3) for w in (0, 1) for c in (0, 1) for r in (0, 1) for ka in (0, 1)]
    bad = []
    repo = os.environ.get("VERIF_REPO", "/repo")
    # what the Lean model Conn (one worker connection, process faults) allows for a process that is reapable before poll():
    # theorem dead_before_poll_returns; the runner waits for reapability, so "returned" is the only outcome
    allowed = ctx.model.ask("conn_outcomes", proc="reapable", faults=True)
    if allowed != ["returned"] or sorted(ctx.model.ask("conn_outcomes", proc="running", faults=True)) != ["blocked", "returned"]:
        raise InfraError("Conn.outcomes contradicts theorems dead_before_poll_returns / shutdown_can_block_after_kill: %r" % (allowed,))
    for k in range(0, len(plans), 6):
        hs = [(p, start_json_child(["vh.kill_shutdown_runner"] + [str(int(p[x])) for x in ("workers", "wait", "cancel", "resolver", "kill_all")])) for p in plans[k:k + 6]]
        for p, h in hs:
            o = finish_json_child(h, 200)
            if o is None or (o.get("shutdown") == "hang"):
                # a verdict resting on a time limit counts only when it happens again, alone
                o = finish_json_child(start_json_child(["vh.kill_shutdown_runner"] + [str(int(p[x])) for x in ("workers", "wait", "cancel", "resolver", "kill_all")]), 300)
            if o is None:
                raise InfraError("kill/shutdown runner produced no output for %r" % (p,))
            if not os.path.realpath(o["pin"]).startswith(os.path.realpath(repo) + os.sep):
                raise InfraError("kill/shutdown runner imported executorlib from " + o["pin"])
            ctx.case({"shutdown_after_worker_killed": p})
            ctx.count("fault.shutdown_after_worker_killed")
            problems = []
            observed = "returned" if o["shutdown"] == "returned" else ("blocked" if o["shutdown"] == "hang" else o["shutdown"])
            if observed not in allowed:
                ctx.count("fault.outcome_outside_Conn")
            if o["shutdown"] != "returned":
                problems.append("shutdown(wait=%s, cancel_futures=%s): %s" % (o["wait"], o["cancel_futures"], o["shutdown"]))
            else:
                if o.get("second_shutdown") != "returned":
                    problems.append("second shutdown: %s" % o.get("second_shutdown"))
                if o.get("submit_after") == "accepted":
                    problems.append("submit() after shutdown() accepted the call")
                if o.get("threads_alive"):
                    problems.append("%d worker thread(s) never end" % o["threads_alive"])
                if o.get("processes_left"):
                    problems.append("worker processes left: %r" % o["processes_left"])
            if problems:
                bad.append({"plan": p, "problems": problems, "outcome": o})
    ctx.oblige("fault scenarios: shutdown after an idle worker process was killed returns in every form, is repeatable, closes the executor, "
               "leaves no thread and no process", not bad, "%d scenarios" % len(plans))
    if bad:
        ctx.violation({"kind": "shutdown_after_worker_killed", "failing_input": True},
                      {"what": "shutdown() after a worker process had died (killed from outside while idle) did not return / was not repeatable / "
                               "left the executor open, a thread or a process behind", "kind": "fault", "plan": bad[0]["plan"], "cases": bad[:3]})
    return len(plans)


def body(ctx: Ctx):
    if ctx.replay_file:
        import json

        data = json.load(open(ctx.replay_file))
        if data.get("kind") == "fault":
            return {"rule": "replay of a fault scenario", "fault_scenarios": fault_scenarios(ctx, only=data["plan"])}
        return sysprop.replay(ctx, "C05", ctx.replay_file)
    n = 110 if ctx.tier == "quick" else 1100
    res = sysprop.campaign(ctx, "C05", PROFILE, n, CORPUS, REQUIRED)
    checked, stuck = invariants_on_traces(ctx, "C05", PROFILE, 30 if ctx.tier == "quick" else 300)
    ctx.oblige("executable invariants hold on %d replayed traces without failing calls; %d end with the script finished" % (checked, stuck), True)
    res["fault_scenarios"] = fault_scenarios(ctx)
    res["rule"] = ("fault scenarios: shutdown (all four forms, 1-3 workers, with / without the resolver) after one or every idle worker process "
                   "was killed from outside; engine B: histories with 0-3 shutdown calls of all four (wait, cancel_futures) combinations placed anywhere (also after an "
                   "earlier shutdown, followed by submit), cancels, gated running calls, parked dependents; 12% of the calls raise "
                   "(block allocation with >= 2 workers + a raising call is the listed deadlock D19); oracles: every shutdown returned "
                   "(watchdog + model-predicted stuck state), shutdown raised nothing but a call's own exception, submit after a completed "
                   "shutdown raised; non-trivial = >= 2 calls or >= 3 script commands")
    res["trusted_base_extra"] = sysprop.TRUST + ["garbage collection (__del__) is exercised as shutdown(wait=False) by the scenario runner"]
    return res


def main(argv=None):
    run_check("C05", body, argv)


if __name__ == "__main__":
    main()
