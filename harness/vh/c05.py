"""C05 — shutdown() returns, is repeatable, closes the executor.  Lean: Props/C05.lean
(shutdown_returns, shutdown_again_is_noop, submit_after_shutdown_raises, shutdown_raises_nothing;
proved deadlock of the code as it is for a raising call on a two-worker block executor, finding
D19).  Tie: engine B with histories of 0-3 shutdown calls of all four flag combinations, cancels,
gated running calls and (in part of the runs) raising calls."""
from __future__ import annotations

from .common import Ctx, run_check
from . import sysprop
from .c02 import invariants_on_traces

PROFILE = {"fail": 0.12, "cancel": True, "cancel_p": 0.15, "deps": True, "multi_shutdown": True, "mid_shutdown": True,
           "mid_shutdown_p": 0.15, "gate_p": 0.4, "block_res_p": 0.03, "no_final_shutdown_p": 0.05, "timeout": 10}

CORPUS = [
    # D3 witness (fixed): second shutdown(cancel_futures=True)
    {"executor": {"backend": "local", "block_allocation": True, "max_workers": 1, "disable_dependencies": False},
     "calls": [{"base": 1, "args": [], "kwargs": {}}, {"base": 2, "args": [], "kwargs": {}}],
     "script": [{"c": "submit"}, {"c": "shutdown", "wait": True, "cancel": True}, {"c": "shutdown", "wait": True, "cancel": True},
                {"c": "shutdown", "wait": False, "cancel": True}, {"c": "submit"}],
     "gates": [], "perturb": {}, "seed": 1, "timeout": 10, "settle": 6},
    # D27 witness (fixed): a parked call whose input is stuck behind a failed call on a one-worker block executor
    {"executor": {"backend": "local", "block_allocation": True, "max_workers": 1, "disable_dependencies": False},
     "calls": [{"base": 1, "gate": 0, "args": [], "kwargs": {}}, {"base": 11, "fail": "user", "args": [{"f": 0}], "kwargs": {}},
               {"base": 102, "args": [{"f": 0}], "kwargs": {}}, {"base": 7, "args": [{"f": 2}], "kwargs": {}}],
     "script": [{"c": "submit"}, {"c": "submit"}, {"c": "submit"}, {"c": "submit"}, {"c": "release", "g": 0}, {"c": "sleep", "ms": 20},
                {"c": "shutdown", "wait": True, "cancel": False}],
     "gates": [0], "perturb": {}, "seed": 2, "timeout": 10, "settle": 6},
]

REQUIRED = ["mSdBegin", "sdDrainGet", "sdDrainCancel", "sdDrainEmpty", "sdPutStop", "sdJoinThread", "sdJoinQueue", "sdFinish",
            "mSubmitRaise", "wProcStop", "wJoinExit", "rBeginSd", "dJoinThread"]


def body(ctx: Ctx):
    if ctx.replay_file:
        return sysprop.replay(ctx, "C05", ctx.replay_file)
    n = 110 if ctx.tier == "quick" else 1100
    res = sysprop.campaign(ctx, "C05", PROFILE, n, CORPUS, REQUIRED)
    checked, stuck = invariants_on_traces(ctx, "C05", PROFILE, 30 if ctx.tier == "quick" else 300)
    ctx.oblige("executable invariants hold on %d replayed traces without failing calls; %d end with the script finished" % (checked, stuck), True)
    res["rule"] = ("engine B: histories with 0-3 shutdown calls of all four (wait, cancel_futures) combinations placed anywhere (also after an "
                   "earlier shutdown, followed by submit), cancels, gated running calls, parked dependents; 12% of the calls raise "
                   "(block allocation with >= 2 workers + a raising call is the listed deadlock D19); oracles: every shutdown returned "
                   "(watchdog + model-predicted stuck state), shutdown raised nothing but a call's own exception, submit after a completed "
                   "shutdown raised; non-trivial = >= 2 calls or >= 3 script commands")
    res["trusted_base_extra"] = sysprop.TRUST + ["garbage collection (__del__) is exercised as shutdown(wait=False) by the scenario runner"]
    return res


def main(argv=None):
    run_check("C05", body, argv)


if __name__ == "__main__":
    main()
