"""python -m vh.kill_shutdown_runner <workers> <wait 0|1> <cancel 0|1> <resolver 0|1> <kill all 0|1>  -> one JSON line.
Fault scenario for C05 / C12 (outside the Lean model Sys, which has no process faults: oracle only): a block-allocation executor
whose worker processes are idle; one (or every) worker process is killed from outside; once the process is reapable
(waitid WNOWAIT: /proc shows state Z as soon as the main thread is gone, while waitpid(WNOHANG) may still say "running")
shutdown(wait, cancel_futures) is called.  It must return, a second shutdown must be a no-op, submit must raise, the worker
threads must end and no worker process may be left."""
import json
import os
import signal
import sys
import threading
import time


def main():
    nw, wait, cancel, resolver, kill_all = int(sys.argv[1]), bool(int(sys.argv[2])), bool(int(sys.argv[3])), bool(int(sys.argv[4])), bool(int(sys.argv[5]))
    import executorlib

    out = {"pin": executorlib.__file__, "workers": nw, "wait": wait, "cancel_futures": cancel, "resolver": resolver, "kill_all": kill_all}
    exe = executorlib.Executor(backend="local", block_allocation=True, max_workers=nw, disable_dependencies=not resolver)
    pids = set()
    t0 = time.monotonic()
    while len(pids) < nw and time.monotonic() - t0 < 60:
        pids.add(exe.submit(os.getpid).result(timeout=60))
    out["pids"] = sorted(pids)
    inner = exe._process if isinstance(exe._process, list) else exe._process._kwargs["executor"]._process
    threads = list(inner)
    victims = sorted(pids) if kill_all else sorted(pids)[:1]
    for p in victims:
        os.kill(p, signal.SIGKILL)
    for p in victims:
        try:
            os.waitid(os.P_PID, p, os.WEXITED | os.WNOWAIT)
        except OSError:
            pass
    out["killed"] = victims
    box = {}

    def sd(key, **kw):
        try:
            exe.shutdown(**kw)
            box[key] = "returned"
        except BaseException as e:  # noqa
            box[key] = "raised:" + type(e).__name__ + ":" + str(e)[:100]

    t = threading.Thread(target=sd, args=("first",), kwargs={"wait": wait, "cancel_futures": cancel}, daemon=True)
    t.start()
    t.join(20)
    out["shutdown"] = box.get("first", "hang")
    if out["shutdown"] == "returned":
        t = threading.Thread(target=sd, args=("second",), kwargs={"wait": True}, daemon=True)
        t.start()
        t.join(20)
        out["second_shutdown"] = box.get("second", "hang")
        try:
            exe.submit(sum, [1, 1])
            out["submit_after"] = "accepted"
        except Exception as e:  # noqa
            out["submit_after"] = "raised:" + type(e).__name__
        deadline = time.monotonic() + 15
        for th in threads:
            th.join(max(0.0, deadline - time.monotonic()))
        out["threads_alive"] = sum(1 for th in threads if th.is_alive())
        # worker processes still running (not zombies of this process: those are dead)
        left = []
        t1 = time.monotonic()
        while time.monotonic() - t1 < 10:
            left = []
            for p in pids:
                try:
                    st = open("/proc/%d/stat" % p).read()
                    if st[st.rindex(")") + 2] != "Z":
                        left.append(p)
                except OSError:
                    pass
            if not left:
                break
            time.sleep(0.1)
        out["processes_left"] = left
    print(json.dumps(out), flush=True)
    for p in pids:
        try:
            os.kill(p, signal.SIGKILL)
        except OSError:
            pass
    os._exit(0)


if __name__ == "__main__":
    main()
